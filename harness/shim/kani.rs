// Native stand-in for the `kani` crate, used ONLY to replay a solver counterexample against the
// natively compiled s2n-quic code (cfg(all(aws_s2n_quic_verif, not(kani), test))).
//
// `kani::any()` pops the next byte vector that Kani's concrete playback printed for the failing
// harness (one vector per primitive `any()` call, little endian) and decodes it;
// `kani::assume(false)` aborts the replay as "not a counterexample" (the values do not satisfy the
// harness' precondition, so nothing may be concluded); `kani::cover!` is a no-op.
//
// Driver protocol (see /verif/check):
//   VERIF_REPLAY_HARNESS = function name of the harness
//   VERIF_REPLAY_VALS    = "1,2,3;4;..."   one ';'-separated group per any() call
// The per-file `verif_replay` test looks the harness up by name, installs the values and calls it.
// A panic in the harness (assert!, overflow, index, unwrap ...) makes the test fail = reproduced.
#![allow(dead_code, unused_macros, unused_imports)]

use std::cell::RefCell;

thread_local! {
    static VALS: RefCell<(Vec<Vec<u8>>, usize)> = RefCell::new((Vec::new(), 0));
}

pub const ASSUME_MARK: &str = "VERIF-REPLAY-ASSUMPTION-FAILED";
pub const EXHAUSTED_MARK: &str = "VERIF-REPLAY-VALUES-EXHAUSTED";

fn next(size: usize) -> Vec<u8> {
    VALS.with(|v| {
        let mut v = v.borrow_mut();
        let idx = v.1;
        if idx >= v.0.len() {
            // Kani omits values the counterexample does not depend on only at the END of the
            // sequence; treat as zero, like kani::concrete_playback does.
            v.1 += 1;
            return vec![0u8; size];
        }
        let bytes = v.0[idx].clone();
        v.1 += 1;
        if bytes.len() != size {
            panic!(
                "{}: value #{} has {} bytes, harness asked for {}",
                EXHAUSTED_MARK,
                idx,
                bytes.len(),
                size
            );
        }
        bytes
    })
}

pub trait Arbitrary: Sized {
    fn any() -> Self;
}

macro_rules! prim {
    ($($t:ty),*) => {$(
        impl Arbitrary for $t {
            fn any() -> Self {
                let b = next(core::mem::size_of::<$t>());
                let mut a = [0u8; core::mem::size_of::<$t>()];
                a.copy_from_slice(&b);
                <$t>::from_le_bytes(a)
            }
        }
    )*};
}
prim!(u8, u16, u32, u64, u128, usize, i8, i16, i32, i64, i128, isize, f32, f64);

impl Arbitrary for bool {
    fn any() -> Self {
        let b = next(1);
        b[0] & 1 == 1
    }
}

// Kani's concrete playback lists an array element by element.
impl<T: Arbitrary, const N: usize> Arbitrary for [T; N] {
    fn any() -> Self {
        core::array::from_fn(|_| T::any())
    }
}

impl<A: Arbitrary, B: Arbitrary> Arbitrary for (A, B) {
    fn any() -> Self {
        let a = A::any();
        let b = B::any();
        (a, b)
    }
}

pub fn any<T: Arbitrary>() -> T {
    T::any()
}

pub fn assume(cond: bool) {
    if !cond {
        // not a counterexample: unwind with a recognisable payload
        std::panic::panic_any(AssumeFailed);
    }
}

pub struct AssumeFailed;

macro_rules! cover {
    ($($t:tt)*) => {};
}
pub(crate) use cover;

fn parse_vals(s: &str) -> Vec<Vec<u8>> {
    if s.trim().is_empty() {
        return Vec::new();
    }
    s.split(';')
        .map(|g| {
            g.split(',')
                .filter(|x| !x.trim().is_empty())
                .map(|x| x.trim().parse::<u8>().expect("byte"))
                .collect()
        })
        .collect()
}

/// Looks up VERIF_REPLAY_HARNESS in `table`; runs it with VERIF_REPLAY_VALS.
/// Prints one line `VERIF-REPLAY: <verdict>`; panics (test failure) iff the harness panicked for a
/// reason other than a failed assumption.
pub fn replay(table: &[(&str, fn())]) {
    let name = match std::env::var("VERIF_REPLAY_HARNESS") {
        Ok(n) => n,
        Err(_) => return,
    };
    let f = match table.iter().find(|(n, _)| *n == name) {
        Some((_, f)) => *f,
        None => return,
    };
    let vals = parse_vals(&std::env::var("VERIF_REPLAY_VALS").unwrap_or_default());
    VALS.with(|v| *v.borrow_mut() = (vals, 0));
    let r = std::panic::catch_unwind(f);
    match r {
        Ok(()) => println!("VERIF-REPLAY: harness={} verdict=passed", name),
        Err(e) => {
            if e.downcast_ref::<AssumeFailed>().is_some() {
                println!("VERIF-REPLAY: harness={} verdict=assumption-failed", name);
            } else {
                let msg = if let Some(s) = e.downcast_ref::<&str>() {
                    s.to_string()
                } else if let Some(s) = e.downcast_ref::<String>() {
                    s.clone()
                } else {
                    "<non-string panic>".to_string()
                };
                if msg.contains(EXHAUSTED_MARK) {
                    println!("VERIF-REPLAY: harness={} verdict=value-mismatch {}", name, msg);
                } else {
                    println!("VERIF-REPLAY: harness={} verdict=reproduced panic={:?}", name, msg);
                    panic!("reproduced: {}", msg);
                }
            }
        }
    }
}
