// C12 (send side): what follows a reset. A SendStream that has used `sent` bytes of its windows
// (two transmission attempts of arbitrary reach, optionally a MAX_STREAM_DATA in between; possibly
// blocked on its stream window with a STREAM_DATA_BLOCKED pending) is reset -
// by the peer's STOP_SENDING, by the local application (poll_request) or internally - and then asked to transmit, twice, with a loss in between:
//  * STOP_SENDING / application reset: exactly one RESET_STREAM is written, its final size is >= everything the stream
//    can have sent and within the peer's MAX_STREAM_DATA and MAX_DATA, no STREAM
//    and no STREAM_DATA_BLOCKED frame accompanies or follows it; after a loss the SAME frame is
//    written again (the announced final size never changes); after its ACK nothing more.
//  * internal reset (connection teardown): nothing at all is written for the stream afterwards.
use super::super::*;
#[cfg(not(kani))]
use crate::kani;
use crate::stream::stream_interests::StreamInterestProvider as _;
use s2n_quic_core::{frame::StopSending, stream::StreamType, endpoint};

// StreamError constructors are #[track_caller]: Location::caller has no Kani model
#[cfg(kani)]
static VERIF_LOC: &core::panic::Location<'static> = core::panic::Location::caller();

#[cfg(kani)]
struct StubLoc<'a>(core::marker::PhantomData<&'a ()>);

#[cfg(kani)]
impl<'a> StubLoc<'a> {
    fn caller() -> &'static core::panic::Location<'static> {
        VERIF_LOC
    }
}

fn ref_varint(b: &[u8]) -> (u64, usize) {
    let n = 1usize << (b[0] >> 6);
    let mut v = (b[0] & 0x3f) as u64;
    let mut i = 1;
    while i < n {
        v = (v << 8) | b[i] as u64;
        i += 1;
    }
    (v, n)
}

#[cfg_attr(kani, kani::proof)]
#[cfg_attr(kani, kani::unwind(10))]
#[cfg_attr(kani, kani::stub(core::panic::Location::caller, StubLoc::caller))]
fn verif_send_stream_after_reset() {
    let conn_total: u32 = kani::any();
    let stream_max: u32 = kani::any();
    let conn = OutgoingConnectionFlowController::new(VarInt::from_u32(conn_total));
    let mut s = SendStream::new(conn.clone(), false, VarInt::from_u32(stream_max), 4096);
    // the application wants to have written up to `want` bytes: the flow controller hands out what
    // both windows allow and remembers a block otherwise
    let want: u32 = kani::any();
    let want2: u32 = kani::any();
    let raise: u32 = kani::any();
    let (sent, stream_max) = {
        use crate::sync::data_sender::OutgoingDataFlowController as _;
        let fc = s.data_sender.flow_controller_mut();
        let g1 = fc.acquire_flow_control_window(VarInt::from_u32(want)).as_u64();
        // optionally a MAX_STREAM_DATA arrives between two transmission attempts
        let mut limit = stream_max;
        if kani::any() {
            fc.set_max_stream_data(VarInt::from_u32(raise));
            if raise > limit {
                limit = raise;
            }
        }
        let g2 = fc.acquire_flow_control_window(VarInt::from_u32(want2)).as_u64();
        (core::cmp::max(g1, g2), limit)
    };
    assert!(sent <= core::cmp::max(want, want2) as u64 && sent <= stream_max as u64 && sent <= conn_total as u64);
    let blocked_before = s.data_sender.flow_controller().state() != StreamFlowControllerState::Ready;
    let id = StreamId::initial(endpoint::Type::Server, StreamType::Bidirectional);
    let internal: bool = kani::any();
    let mut events = StreamEvents::new();
    let code: u8 = kani::any();
    if internal {
        s.on_internal_reset(StreamError::invalid_stream(), &mut events);
    } else if kani::any() {
        let frame = StopSending { stream_id: id.into(), application_error_code: VarInt::from_u8(code) };
        assert!(s.on_stop_sending(&frame, &mut events).is_ok());
    } else {
        // the local application resets the stream through the stream API
        let mut request = s2n_quic_core::stream::ops::tx::Request::default();
        request.reset = Some(VarInt::from_u8(code).into());
        let response = s.poll_request(&mut request, None);
        assert!(response.is_ok());
        kani::cover!(true, "application reset");
    }
    let mut ctx = crate::verif_support::StubCtx::new(64);
    assert!(s.on_transmit(id, &mut ctx).is_ok());
    if internal {
        assert!(ctx.frames_written == 0);
        assert!(s.get_stream_interests().transmission == crate::transmission::Interest::None);
        kani::cover!(blocked_before, "blocked stream torn down silently");
    } else {
        // exactly one frame: RESET_STREAM (0x04) stream id, error code, final size
        assert!(ctx.frames_written == 1);
        let f = &ctx.last_frame;
        assert!(f[0] == 0x04);
        let (sid, n1) = ref_varint(&f[1..]);
        let (err, n2) = ref_varint(&f[1 + n1..]);
        let (fin, _) = ref_varint(&f[1 + n1 + n2..]);
        assert!(sid == id.as_varint().as_u64());
        assert!(err == code as u64);
        // C12: never smaller than what was sent; C03: the final size obeys the same limits as data -
        // the peer's MAX_STREAM_DATA for this stream and its MAX_DATA for the connection
        assert!(fin >= sent);
        assert!(fin <= conn_total as u64);
        assert!(fin <= stream_max as u64);
        // lost: the same frame again, nothing else
        let lost = crate::verif_support::pn(7);
        s.on_packet_loss(&lost);
        let mut ctx2 = crate::verif_support::StubCtx::new(64);
        assert!(s.on_transmit(id, &mut ctx2).is_ok());
        assert!(ctx2.frames_written == 1);
        let mut k = 0;
        while k < 8 {
            assert!(ctx2.last_frame[k] == ctx.last_frame[k]);
            k += 1;
        }
        // acknowledged: terminal, silent
        let mut events2 = StreamEvents::new();
        s.on_packet_ack(&lost, &mut events2);
        let mut ctx3 = crate::verif_support::StubCtx::new(64);
        assert!(s.on_transmit(id, &mut ctx3).is_ok());
        assert!(ctx3.frames_written == 0);
        assert!(s.get_stream_interests().transmission == crate::transmission::Interest::None);
        kani::cover!(blocked_before && sent > 0, "reset while STREAM_DATA_BLOCKED was pending");
        kani::cover!(sent == 0, "reset before any data");
        core::mem::forget(events2);
    }
    core::mem::forget(events);
    core::mem::forget(s);
    core::mem::forget(conn);
}

// C12: once the application has finished a stream (FIN announced at the current length) nothing
// more is accepted for it - a later write attempt is refused with SendAfterFinish, a second finish
// changes nothing - so the announced final size can never change or be exceeded. A reset afterwards
// is still possible (and then reports a final size within the limits, see above).
#[cfg_attr(kani, kani::proof)]
#[cfg_attr(kani, kani::unwind(10))]
#[cfg_attr(kani, kani::stub(core::panic::Location::caller, StubLoc::caller))]
fn verif_send_stream_finish_is_final() {
    use s2n_quic_core::stream::ops;
    let conn_total: u32 = kani::any();
    let stream_max: u32 = kani::any();
    let conn = OutgoingConnectionFlowController::new(VarInt::from_u32(conn_total));
    let mut s = SendStream::new(conn.clone(), false, VarInt::from_u32(stream_max), 4096);
    let mut finish = ops::tx::Request::default();
    finish.finish = true;
    finish.flush = kani::any();
    let r1 = s.poll_request(&mut finish, None);
    assert!(matches!(r1, Ok(ref r) if r.status == ops::Status::Finishing));
    assert!(matches!(s.data_sender.state(), data_sender::State::Finishing(_)));
    let len_at_finish = s.data_sender.total_enqueued_len();
    // a writer probing for room (or writing) afterwards is refused
    let waker = core::task::Waker::noop();
    let cx = Context::from_waker(waker);
    let mut probe = ops::tx::Request::default();
    let r2 = s.poll_request(&mut probe, Some(&cx));
    assert!(matches!(r2, Err(StreamError::SendAfterFinish { .. })));
    // finishing again is harmless and changes nothing
    let mut again = ops::tx::Request::default();
    again.finish = true;
    let r3 = s.poll_request(&mut again, None);
    assert!(matches!(r3, Ok(ref r) if r.status == ops::Status::Finishing));
    assert!(s.data_sender.total_enqueued_len() == len_at_finish);
    assert!(matches!(s.state, SendStreamState::Sending));
    kani::cover!(true, "finish, refused write, second finish");
    core::mem::forget(s);
    core::mem::forget(conn);
}

// ---- generated by tools/fixup.py: native replay entry ----
#[cfg(not(kani))]
#[test]
fn verif_replay() {
    kani::replay(&[
        ("verif_send_stream_after_reset", verif_send_stream_after_reset),
        ("verif_send_stream_finish_is_final", verif_send_stream_finish_is_final),
    ]);
}
