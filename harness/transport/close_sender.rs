// C12-O5: once CONNECTION_CLOSE was sent, nothing but copies of that close packet go out, and
// those only in response to incoming packets (rate limited), until the closing period ends.
use super::*;
#[cfg(not(kani))]
use crate::kani;
use crate::path::testing::helper_path_server;
use s2n_quic_core::{
    event::testing::Publisher,
    io::tx::Message as _,
    time::{Clock as _, NoopClock},
};

static PACKET: [u8; 5] = *b"CLOSE";

fn at(us: u16) -> Timestamp {
    NoopClock.get_time() + Duration::from_micros(us as u64)
}

struct Pre {
    transmitting: bool,
    debounce: Option<u16>,
    close_at: u16,
    factor: u8,
    received: u8,
}

fn any_closing() -> (CloseSender, Pre) {
    let transmitting: bool = kani::any();
    let has_debounce: bool = kani::any();
    let d: u16 = kani::any();
    let close_at: u16 = kani::any();
    let factor: u8 = kani::any();
    let received: u8 = kani::any();
    kani::assume(factor >= 1 && received < factor);
    let mut debounce = Timer::default();
    if has_debounce {
        debounce.set(at(d));
    }
    let mut close_timer = Timer::default();
    close_timer.set(at(close_at));
    let sender = CloseSender {
        state: State::Closing {
            packet: Bytes::from_static(&PACKET),
            limiter: Limiter {
                factor: Counter::new(factor),
                received: Counter::new(received),
                debounce,
            },
            transmission: if transmitting {
                TransmissionState::Transmitting
            } else {
                TransmissionState::Idle
            },
            close_timer,
        },
    };
    (
        sender,
        Pre { transmitting, debounce: if has_debounce { Some(d) } else { None }, close_at, factor, received },
    )
}

fn is_transmitting(s: &CloseSender) -> bool {
    matches!(s.state, State::Closing { transmission: TransmissionState::Transmitting, .. })
}

fn debounce_armed(s: &CloseSender) -> bool {
    match &s.state {
        State::Closing { limiter, .. } => limiter.debounce.is_armed(),
        _ => false,
    }
}

#[cfg_attr(kani, kani::proof)]
#[cfg_attr(kani, kani::unwind(2))]
fn verif_close_sender_step() {
    let (mut s, pre) = any_closing();
    let now_us: u16 = kani::any();
    let now = at(now_us);
    // Timer semantics: fires when deadline < now + 1 ms
    let fired = |deadline: u16| (deadline as u32) < now_us as u32 + 1000;
    if kani::any() {
        // ---- an incoming datagram: may arm the debounce timer, never transmits by itself
        let rtt_us: u16 = kani::any();
        s.on_datagram_received(Duration::from_micros(rtt_us as u64), now);
        assert!(is_transmitting(&s) == pre.transmitting);
        assert!(matches!(s.state, State::Closing { .. }));
        if pre.debounce.is_some() {
            // still waiting: further datagrams are not even counted
            assert!(matches!(&s.state, State::Closing { limiter, .. } if *limiter.received == pre.received && *limiter.factor == pre.factor));
        } else if pre.received + 1 >= pre.factor {
            // enough datagrams seen: one more close packet after ~1 RTT, and the bar doubles
            assert!(matches!(&s.state, State::Closing { limiter, .. }
                if *limiter.received == 0 && *limiter.factor == pre.factor.saturating_mul(2) && limiter.debounce.is_armed()));
            kani::cover!(pre.factor == 128, "factor saturates");
            kani::cover!(pre.factor == 1, "first response");
        } else {
            assert!(matches!(&s.state, State::Closing { limiter, .. }
                if *limiter.received == pre.received + 1 && *limiter.factor == pre.factor && !limiter.debounce.is_armed()));
            kani::cover!(true, "datagram counted, no response yet");
        }
    } else {
        // ---- timer expiry
        let r = s.on_timeout(now);
        if fired(pre.close_at) {
            assert!(r.is_ready());
            assert!(matches!(s.state, State::Closed));
            assert!(!s.has_transmission_interest());
            // Closed is absorbing
            assert!(s.on_timeout(now).is_ready());
            s.on_datagram_received(Duration::from_micros(1), now);
            assert!(matches!(s.state, State::Closed) && !s.has_transmission_interest());
            kani::cover!(true, "closing period over");
        } else {
            assert!(r.is_pending());
            match pre.debounce {
                Some(d) if fired(d) => {
                    // the only way back to Transmitting: a debounce timer armed by an incoming datagram
                    assert!(is_transmitting(&s));
                    assert!(!debounce_armed(&s));
                    kani::cover!(!pre.transmitting, "close packet re-armed after debounce");
                }
                _ => {
                    assert!(is_transmitting(&s) == pre.transmitting);
                    assert!(debounce_armed(&s) == pre.debounce.is_some());
                    kani::cover!(!pre.transmitting && pre.debounce.is_none(), "idle stays idle without incoming packets");
                }
            }
        }
    }
    assert!(s.has_transmission_interest() == is_transmitting(&s));
    core::mem::forget(s);
}

// the transmission writes exactly the stored close packet and goes back to Idle
#[cfg_attr(kani, kani::proof)]
#[cfg_attr(kani, kani::unwind(7))]
fn verif_close_sender_transmission() {
    let (mut s, pre) = any_closing();
    kani::assume(pre.transmitting);
    let mut path = helper_path_server();
    // the client's address may still be unvalidated when the server closes: the close packet is
    // then sent out of (and debited from) the anti-amplification allowance like every other packet
    let validated: bool = kani::any();
    let received: usize = kani::any();
    kani::assume(received >= 2 && received <= 3);
    if validated {
        path.on_handshake_packet();
    } else {
        let _ = path.on_bytes_received(received);
    }
    assert!(!path.at_amplification_limit());
    let mut publisher = Publisher::no_snapshot();
    let mut buffer = [0u8; 16];
    let now = at(0);
    let len = s
        .transmission(&mut path, now, &mut publisher)
        .write_payload(tx::PayloadBuffer::new(&mut buffer), 0);
    assert!(len == Ok(5));
    if !validated {
        // 3 x received credited, 5 bytes sent: 6 - 5 leaves 1, 9 - 5 leaves 4; one more byte of
        // anything uses up the former but not the latter - observable through the gate
        path.on_bytes_transmitted(1);
        assert!(path.at_amplification_limit() == (received == 2));
        kani::cover!(received == 2, "close packet exhausted the allowance");
    }
    let k: usize = kani::any();
    kani::assume(k < 5);
    assert!(buffer[k] == PACKET[k]);
    assert!(!is_transmitting(&s) && !s.has_transmission_interest());
    assert!(matches!(s.state, State::Closing { .. }));
    kani::cover!(true, "close packet written");
    core::mem::forget(s);
    core::mem::forget(path);
    core::mem::forget(publisher);
}

// ---- generated by tools/fixup.py: native replay entry ----
#[cfg(not(kani))]
#[test]
fn verif_replay() {
    kani::replay(&[
        ("verif_close_sender_step", verif_close_sender_step),
        ("verif_close_sender_transmission", verif_close_sender_transmission),
    ]);
}
