// shared helpers for the in-crate harnesses of s2n-quic-transport
// (hooked at the crate root as `crate::verif_support`)
#![allow(dead_code)]
use s2n_codec::{Encoder, EncoderBuffer, EncoderValue};
use s2n_quic_core::{
    endpoint,
    event::{self, IntoEvent},
    frame::{ack_elicitation::AckElicitation, FrameTrait},
    packet::number::{PacketNumber, PacketNumberSpace},
    time::{Clock as _, NoopClock, Timestamp},
    transmission,
    varint::VarInt,
};

pub const FRAME_BUF: usize = 24;

/// A WriteContext whose environment answers (constraint, capacity, whether a frame fits) are fixed
/// by the harness, and which records the last frame written as its encoded bytes.
pub struct StubCtx {
    pub now: Timestamp,
    pub constraint: transmission::Constraint,
    pub mode: transmission::Mode,
    pub capacity: usize,
    /// write_frame succeeds iff the frame's encoding fits into `capacity`
    pub pn: PacketNumber,
    pub eliciting: bool,
    pub frames_written: usize,
    pub last_frame: [u8; FRAME_BUF],
    pub last_frame_len: usize,
}

pub fn pn(v: u64) -> PacketNumber {
    PacketNumberSpace::ApplicationData.new_packet_number(VarInt::new(v).unwrap())
}

impl StubCtx {
    pub fn new(capacity: usize) -> Self {
        Self {
            now: NoopClock.get_time(),
            constraint: transmission::Constraint::None,
            mode: transmission::Mode::Normal,
            capacity,
            pn: pn(7),
            eliciting: false,
            frames_written: 0,
            last_frame: [0; FRAME_BUF],
            last_frame_len: 0,
        }
    }

    fn record<F: EncoderValue + FrameTrait>(&mut self, frame: &F) -> bool {
        let size = frame.encoding_size();
        if size > self.capacity || size > FRAME_BUF {
            return false;
        }
        let mut enc = EncoderBuffer::new(&mut self.last_frame);
        enc.encode(frame);
        self.last_frame_len = enc.len();
        self.capacity -= size;
        self.frames_written += 1;
        // a packet is ack-eliciting as soon as it holds one ack-eliciting frame (ACK/PADDING/
        // CONNECTION_CLOSE are not)
        if frame.ack_elicitation().is_ack_eliciting() {
            self.eliciting = true;
        }
        true
    }
}

impl transmission::Writer for StubCtx {
    fn current_time(&self) -> Timestamp {
        self.now
    }
    fn transmission_constraint(&self) -> transmission::Constraint {
        self.constraint
    }
    fn transmission_mode(&self) -> transmission::Mode {
        self.mode
    }
    fn remaining_capacity(&self) -> usize {
        self.capacity
    }
    fn write_frame<F>(&mut self, frame: &F) -> Option<PacketNumber>
    where
        F: EncoderValue + FrameTrait,
        for<'f> &'f F: IntoEvent<event::builder::Frame>,
    {
        if self.record(frame) {
            Some(self.pn)
        } else {
            None
        }
    }
    fn write_fitted_frame<F>(&mut self, frame: &F) -> PacketNumber
    where
        F: EncoderValue + FrameTrait,
        for<'f> &'f F: IntoEvent<event::builder::Frame>,
    {
        assert!(self.record(frame), "fitted frame did not fit");
        self.pn
    }
    fn write_frame_forced<F>(&mut self, frame: &F) -> Option<PacketNumber>
    where
        F: EncoderValue + FrameTrait,
        for<'f> &'f F: IntoEvent<event::builder::Frame>,
    {
        self.write_frame(frame)
    }
    fn ack_elicitation(&self) -> AckElicitation {
        if self.eliciting {
            AckElicitation::Eliciting
        } else {
            AckElicitation::NonEliciting
        }
    }
    fn packet_number(&self) -> PacketNumber {
        self.pn
    }
    fn local_endpoint_type(&self) -> endpoint::Type {
        endpoint::Type::Server
    }
    fn header_len(&self) -> usize {
        0
    }
    fn tag_len(&self) -> usize {
        0
    }
}

/// independent RFC 9000 section 16 varint reader used by the harness oracles
pub fn ref_varint(b: &[u8]) -> Option<(u64, usize)> {
    if b.is_empty() {
        return None;
    }
    let n = 1usize << (b[0] >> 6);
    if b.len() < n {
        return None;
    }
    let mut v = (b[0] & 0x3f) as u64;
    let mut i = 1;
    while i < n {
        v = (v << 8) | b[i] as u64;
        i += 1;
    }
    Some((v, n))
}

pub fn any_varint() -> VarInt {
    let v: u64 = crate::verif_support::any_u64();
    VarInt::new(v & ((1 << 62) - 1)).unwrap()
}

#[cfg(kani)]
pub fn any_u64() -> u64 {
    kani::any()
}
#[cfg(not(kani))]
pub fn any_u64() -> u64 {
    crate::kani::any()
}
