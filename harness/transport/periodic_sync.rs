// C02-O1b: PeriodicSync (DATA_BLOCKED / STREAM_DATA_BLOCKED / STREAMS_BLOCKED sender) — a blocked
// signal that was requested is never silently dropped: until stop_sync() the component always has
// a transmission pending, a delivery in flight, or an armed re-sync timer.
use super::*;
#[cfg(not(kani))]
use crate::kani;
use crate::{
    transmission::interest::Provider as _,
    verif_support::{pn, StubCtx},
};
use s2n_quic_core::{
    packet::number::{PacketNumber, PacketNumberRange},
    time::{timer::Provider as _, Clock as _, NoopClock},
    varint::VarInt,
};

#[derive(Default, Debug)]
struct W;
impl ValueToFrameWriter<VarInt> for W {
    fn write_value_as_frame<C: WriteContext>(&self, v: VarInt, _s: StreamId, c: &mut C) -> Option<PacketNumber> {
        c.write_frame(&s2n_quic_core::frame::DataBlocked { data_limit: v })
    }
}

type Sync = PeriodicSync<VarInt, W>;

fn at(us: u16) -> Timestamp {
    NoopClock.get_time() + Duration::from_micros(us as u64)
}

fn vi() -> VarInt {
    let v: u64 = kani::any();
    kani::assume(v < (1 << 62));
    VarInt::new(v).unwrap()
}

/// the signal is "alive": something will make it go out (again)
fn live(s: &Sync) -> bool {
    matches!(s.delivery, DeliveryState::Requested(_) | DeliveryState::Lost(_) | DeliveryState::InFlight(_))
        || s.delivery_timer.is_armed()
}

fn any_sync() -> Sync {
    let latest = vi();
    let v = vi();
    kani::assume(v <= latest);
    let k: u8 = kani::any();
    kani::assume(k < 6);
    let p: u64 = kani::any();
    kani::assume(p < 1000);
    let delivery = match k {
        0 => DeliveryState::NotRequested,
        1 => DeliveryState::Requested(v),
        2 => DeliveryState::Lost(v),
        3 => DeliveryState::InFlight(InFlightDelivery {
            value: v,
            packet: InflightPacketInfo { packet_nr: pn(p), timestamp: at(kani::any()) },
        }),
        4 => DeliveryState::Delivered(v),
        _ => DeliveryState::Cancelled(None),
    };
    let mut timer = Timer::default();
    if kani::any() {
        timer.set(at(kani::any()));
    }
    let period_ms: u16 = kani::any();
    let backoff: u16 = kani::any();
    kani::assume(backoff >= 1);
    // representation invariant: a Delivered signal always has its periodic re-sync timer armed
    // (on_packet_ack arms it; only on_timeout -> Requested or stop_sync -> Cancelled disarm it)
    kani::assume(k != 4 || timer.is_armed());
    PeriodicSync {
        latest_value: latest,
        sync_period: Duration::from_millis(period_ms as u64),
        delivery_timer: timer,
        delivery,
        writer: W,
        delivered: kani::any(),
        transmission_backoff: Counter::new(backoff),
    }
}

#[cfg_attr(kani, kani::proof)]
#[cfg_attr(kani, kani::unwind(10))]
fn verif_periodic_sync_step() {
    let mut s = any_sync();
    let was_live = live(&s);
    let latest0 = s.latest_value;
    let op: u8 = kani::any();
    kani::assume(op < 7);
    let now_us: u16 = kani::any();
    match op {
        0 => {
            let v = vi();
            kani::assume(v >= s.latest_value);
            s.request_delivery(v);
            assert!(s.latest_value == v);
            // a request always makes the signal alive
            assert!(live(&s));
            kani::cover!(!was_live, "idle component picks up a request");
        }
        1 => {
            s.skip_delivery(at(now_us));
            kani::cover!(was_live && !s.has_transmission_interest() && s.delivery_timer.is_armed(), "delivery skipped, timer re-armed");
        }
        2 => {
            let timer_was_armed = s.delivery_timer.is_armed();
            s.on_timeout(at(now_us));
            if timer_was_armed && !s.delivery_timer.is_armed() {
                // the re-sync timer fired: the latest value is requested again
                assert!(matches!(s.delivery, DeliveryState::Requested(v) if v == latest0));
                kani::cover!(true, "re-sync timer fired");
            }
        }
        3 => {
            let lo: u64 = kani::any();
            let hi: u64 = kani::any();
            kani::assume(lo <= hi && hi < 1000);
            s.on_packet_ack(&PacketNumberRange::new(pn(lo), pn(hi)));
            kani::cover!(matches!(s.delivery, DeliveryState::Delivered(_)) && s.delivery_timer.is_armed(), "delivered: periodic re-sync armed");
        }
        4 => {
            let lo: u64 = kani::any();
            let hi: u64 = kani::any();
            kani::assume(lo <= hi && hi < 1000);
            let inflight = matches!(s.delivery, DeliveryState::InFlight(_));
            s.on_packet_loss(&PacketNumberRange::new(pn(lo), pn(hi)));
            if inflight && !matches!(s.delivery, DeliveryState::InFlight(_)) {
                assert!(matches!(s.delivery, DeliveryState::Lost(_)) && s.has_transmission_interest());
                kani::cover!(true, "lost BLOCKED frame queued again");
            }
        }
        5 => {
            let cap: usize = kani::any();
            kani::assume(cap <= 16);
            let mut ctx = StubCtx::new(cap);
            let c: u8 = kani::any();
            ctx.constraint = match c % 4 {
                0 => transmission::Constraint::None,
                1 => transmission::Constraint::AmplificationLimited,
                2 => transmission::Constraint::CongestionLimited,
                _ => transmission::Constraint::RetransmissionOnly,
            };
            let had_interest = s.has_transmission_interest();
            let r = s.on_transmit(StreamId::from_varint(VarInt::from_u8(0)), &mut ctx);
            if ctx.frames_written == 1 {
                assert!(r.is_ok() && had_interest);
                // carries the LATEST limit
                let (v, n) = crate::verif_support::ref_varint(&ctx.last_frame[1..ctx.last_frame_len]).unwrap();
                assert!(ctx.last_frame[0] == 0x14 && n + 1 == ctx.last_frame_len && v == latest0.as_u64());
                assert!(matches!(&s.delivery, DeliveryState::InFlight(f) if f.value == latest0 && f.packet.packet_nr == ctx.pn));
                kani::cover!(true, "DATA_BLOCKED written");
            } else {
                assert!(s.has_transmission_interest() == had_interest);
                kani::cover!(had_interest, "could not send now: request kept");
            }
        }
        _ => {
            s.stop_sync();
            assert!(!live(&s) && !s.has_transmission_interest() && !s.is_armed());
            assert!(!s.has_delivered());
            kani::cover!(was_live, "sync stopped");
        }
    }
    if op != 6 && was_live {
        // nothing pending is forgotten
        assert!(live(&s));
    }
    // invariant preserved
    assert!(!matches!(s.delivery, DeliveryState::Delivered(_)) || s.delivery_timer.is_armed());
    assert!(s.latest_value >= latest0);
}

// ---- generated by tools/fixup.py: native replay entry ----
#[cfg(not(kani))]
#[test]
fn verif_replay() {
    kani::replay(&[
        ("verif_periodic_sync_step", verif_periodic_sync_step),
    ]);
}
