// C03-O1: a stream never obtains more send window than the peer granted (per stream and summed
// over the connection), whatever order acquire / MAX_DATA / MAX_STREAM_DATA arrive in.
use super::*;
#[cfg(not(kani))]
use crate::kani;
use crate::sync::data_sender::OutgoingDataFlowController;
use s2n_quic_core::frame::MaxData;

const M: u64 = (1 << 62) - 1;

fn vi(max: u64) -> VarInt {
    let v: u64 = kani::any();
    kani::assume(v <= max);
    VarInt::new(v).unwrap()
}

struct Pre {
    total: u64,
    a0: u64,
    a1: u64,
    m0: u64,
    m1: u64,
}

/// arbitrary state of two streams sharing the connection controller, reached through the
/// connection controller's public API (new + acquire) and the stream controllers' fields:
/// sum of per-stream shares == connection window handed out <= total (largest MAX_DATA seen)
fn any_state() -> (OutgoingConnectionFlowController, StreamFlowController, StreamFlowController, Pre) {
    let total = vi(M);
    let a0 = vi(M);
    let a1 = vi(M);
    kani::assume(a0.as_u64() as u128 + a1.as_u64() as u128 <= total.as_u64() as u128);
    let mut conn = OutgoingConnectionFlowController::new(total);
    let got = conn.acquire_window(a0 + a1);
    assert!(got == a0 + a1);
    let mk = |acq: VarInt| {
        let hi = vi(M);
        kani::assume(hi >= acq);
        let max = vi(M);
        // a stream never holds connection credit beyond its own limit (what RESET_STREAM reports as
        // final size): established by new(), re-asserted after every step below
        kani::assume(acq <= max);
        let st: u8 = kani::any();
        let mut s = StreamFlowController::new(conn.clone(), max);
        s.acquired_connection_flow_controller_window = acq;
        s.highest_requested_connection_flow_control_window = hi;
        s.state = match st % 3 {
            0 => StreamFlowControllerState::Ready,
            1 => StreamFlowControllerState::BlockedOnStreamWindow,
            _ => StreamFlowControllerState::BlockedOnConnectionWindow,
        };
        (s, max.as_u64())
    };
    let (s0, m0) = mk(a0);
    let (s1, m1) = mk(a1);
    let pre = Pre { total: total.as_u64(), a0: a0.as_u64(), a1: a1.as_u64(), m0, m1 };
    (conn, s0, s1, pre)
}

#[cfg_attr(kani, kani::proof)]
#[cfg_attr(kani, kani::unwind(2))]
fn verif_tx_flow_step() {
    let (conn, mut s0, mut s1, pre) = any_state();
    let mut conn_h = conn.clone();
    let op: u8 = kani::any();
    kani::assume(op < 4);
    let v = vi(M);
    // ghost: the largest limits received so far
    let mut max_data = pre.total;
    let mut max_s0 = pre.m0;
    match op {
        0 => {
            let w = s0.acquire_flow_control_window(v);
            // never beyond the stream limit, never beyond the share of connection credit it owns
            assert!(w.as_u64() <= max_s0);
            assert!(w <= s0.acquired_connection_flow_controller_window());
            // blocked <=> the request could not be fully satisfied
            assert!(s0.is_blocked() == (v > w));
            kani::cover!(w == v, "request fully granted");
            kani::cover!(w < v && w.as_u64() == max_s0, "stream-limit blocked");
            kani::cover!(w < v && w.as_u64() < max_s0, "connection-limit blocked");
        }
        1 => {
            conn_h.on_max_data(MaxData { maximum_data: v });
            if v.as_u64() > max_data {
                max_data = v.as_u64();
            }
            kani::cover!(v.as_u64() > pre.total, "MAX_DATA raised the limit");
            kani::cover!(v.as_u64() < pre.total, "stale MAX_DATA ignored");
        }
        2 => {
            s0.set_max_stream_data(v);
            if v.as_u64() > max_s0 {
                max_s0 = v.as_u64();
            }
            assert!(s0.max_stream_data.as_u64() == max_s0);
            kani::cover!(v.as_u64() < pre.m0, "stale MAX_STREAM_DATA ignored");
        }
        _ => {
            s0.try_acquire_connection_window();
            kani::cover!(s0.acquired_connection_flow_controller_window().as_u64() > pre.a0, "late credit picked up");
        }
    }
    // connection-wide: what the streams own never exceeds the largest MAX_DATA received
    let a0 = s0.acquired_connection_flow_controller_window().as_u64();
    let a1 = s1.acquired_connection_flow_controller_window().as_u64();
    assert!(a1 == pre.a1 && a0 >= pre.a0);
    assert!(a0 as u128 + a1 as u128 <= max_data as u128);
    assert!(conn.total_window().as_u64() == max_data);
    // the controller's own books agree with the streams' shares (inductive invariant)
    assert!(conn.acquired_window().as_u64() as u128 == a0 as u128 + a1 as u128);
    // the second stream's stream limit is untouched
    assert!(s1.max_stream_data.as_u64() == pre.m1);
    // C03 (final size of a RESET_STREAM = credit held): never beyond the largest MAX_STREAM_DATA
    assert!(a0 <= max_s0);
    assert!(a0 <= s0.max_stream_data.as_u64());
}

// finishing / resetting a stream silences its flow-control signalling: whatever blocked it
// (stream window, connection window, or both), no STREAM_DATA_BLOCKED is offered afterwards
#[cfg_attr(kani, kani::proof)]
#[cfg_attr(kani, kani::unwind(2))]
fn verif_tx_flow_finish_after_blocked() {
    use crate::transmission::interest::Provider as _;
    let (_conn, mut s0, _s1, _pre) = any_state();
    let v = vi(M);
    let w = s0.acquire_flow_control_window(v);
    let blocked_on_stream = v.as_u64() > s0.max_stream_data.as_u64();
    // a stream-window block announces itself
    assert!(s0.has_transmission_interest() == blocked_on_stream);
    s0.finish();
    assert!(s0.state() == StreamFlowControllerState::Finished);
    assert!(!s0.is_blocked());
    assert!(!s0.has_transmission_interest());
    kani::cover!(blocked_on_stream && v > s0.acquired_connection_flow_controller_window(), "blocked on both windows before the reset");
    kani::cover!(blocked_on_stream && w == s0.max_stream_data, "blocked on the stream window only");
    kani::cover!(!blocked_on_stream, "not stream-blocked");
}

// three-step history from construction (k-hist), two streams
#[cfg_attr(kani, kani::proof)]
#[cfg_attr(kani, kani::unwind(4))]
fn verif_tx_flow_three_ops() {
    let conn_init = vi(M);
    let conn = OutgoingConnectionFlowController::new(conn_init);
    let s0_init = vi(M);
    let s1_init = vi(M);
    let mut s0 = StreamFlowController::new(conn.clone(), s0_init);
    let mut s1 = StreamFlowController::new(conn.clone(), s1_init);
    let mut max_data = conn_init;
    let mut max_s0 = s0_init;
    let mut max_s1 = s1_init;
    let mut conn_h = conn.clone();
    for _ in 0..3 {
        let op: u8 = kani::any();
        let v = vi(M);
        match op % 5 {
            0 => {
                let w = s0.acquire_flow_control_window(v);
                assert!(w <= max_s0);
            }
            1 => {
                let w = s1.acquire_flow_control_window(v);
                assert!(w <= max_s1);
            }
            2 => {
                conn_h.on_max_data(MaxData { maximum_data: v });
                if v > max_data {
                    max_data = v;
                }
            }
            3 => {
                s0.set_max_stream_data(v);
                if v > max_s0 {
                    max_s0 = v;
                }
            }
            _ => {
                s1.set_max_stream_data(v);
                if v > max_s1 {
                    max_s1 = v;
                }
            }
        }
        let a0 = s0.acquired_connection_flow_controller_window().as_u64();
        let a1 = s1.acquired_connection_flow_controller_window().as_u64();
        assert!(a0 as u128 + a1 as u128 <= max_data.as_u64() as u128);
        assert!(conn.total_window() == max_data);
        // credit held (= final size a RESET_STREAM would report) within the stream limits received
        assert!(a0 <= max_s0.as_u64() && a1 <= max_s1.as_u64());
    }
    kani::cover!(s0.acquired_connection_flow_controller_window().as_u64() > 0 && s1.acquired_connection_flow_controller_window().as_u64() > 0, "both streams hold credit");
}

#[path = "/verif/harness/transport/send_stream_reset.rs"]
mod send_stream_reset;

// ---- generated by tools/fixup.py: native replay entry ----
#[cfg(not(kani))]
#[test]
fn verif_replay() {
    kani::replay(&[
        ("verif_tx_flow_step", verif_tx_flow_step),
        ("verif_tx_flow_finish_after_blocked", verif_tx_flow_finish_after_blocked),
        ("verif_tx_flow_three_ops", verif_tx_flow_three_ops),
    ]);
}
