// shared by the connection-ID harnesses (local_id.rs, peer_id_tx.rs): a recording WriteContext.
// Included with #[path] as a private child module of each harness file.
#![allow(dead_code)]
use crate::verif_support::ref_varint;
use s2n_codec::{Encoder, EncoderBuffer, EncoderValue};
use s2n_quic_core::{
    endpoint,
    event::{self, IntoEvent},
    frame::{ack_elicitation::AckElicitation, FrameTrait},
    packet::number::PacketNumber,
    time::Timestamp,
    transmission,
};

pub const MAX_FRAMES: usize = 4;
pub const RAW: usize = 48;
pub const K_NEW_CONNECTION_ID: u8 = 1;
pub const K_RETIRE_CONNECTION_ID: u8 = 2;
pub const K_OTHER: u8 = 0xff;

/// A WriteContext that accepts at most `frames_left` further frames and records, per frame written,
/// its kind and its sequence-number fields.
///  * NEW_CONNECTION_ID: (sequence_number, retire_prior_to) as exposed by the frame's event
///    conversion; if `encode_new` is set the frame is also encoded into `raw`.
///  * RETIRE_CONNECTION_ID: the frame is encoded and its sequence number is read back from the
///    bytes with the independent varint reader.
pub struct RecCtx {
    pub now: Timestamp,
    pub constraint: transmission::Constraint,
    pub frames_left: usize,
    pub pn: PacketNumber,
    pub encode_new: bool,
    pub n: usize,
    pub kind: [u8; MAX_FRAMES],
    pub a: [u64; MAX_FRAMES],
    pub b: [u64; MAX_FRAMES],
    pub raw: [[u8; RAW]; MAX_FRAMES],
    pub raw_len: [usize; MAX_FRAMES],
}

impl RecCtx {
    pub fn new(now: Timestamp, constraint: transmission::Constraint, frames_left: usize, pn: PacketNumber) -> Self {
        Self {
            now,
            constraint,
            frames_left,
            pn,
            encode_new: false,
            n: 0,
            kind: [0; MAX_FRAMES],
            a: [0; MAX_FRAMES],
            b: [0; MAX_FRAMES],
            raw: [[0; RAW]; MAX_FRAMES],
            raw_len: [0; MAX_FRAMES],
        }
    }

    fn record<F>(&mut self, frame: &F) -> bool
    where
        F: EncoderValue + FrameTrait,
        for<'f> &'f F: IntoEvent<event::builder::Frame>,
    {
        if self.frames_left == 0 {
            return false;
        }
        assert!(self.n < MAX_FRAMES, "more frames written than the harness expects at most");
        let k = self.n;
        let ev: event::builder::Frame = frame.into_event();
        match ev {
            event::builder::Frame::NewConnectionId { sequence_number, retire_prior_to } => {
                self.kind[k] = K_NEW_CONNECTION_ID;
                self.a[k] = sequence_number;
                self.b[k] = retire_prior_to;
                if self.encode_new {
                    let size = frame.encoding_size();
                    assert!(size <= RAW);
                    let mut enc = EncoderBuffer::new(&mut self.raw[k]);
                    enc.encode(frame);
                    self.raw_len[k] = enc.len();
                }
            }
            event::builder::Frame::RetireConnectionId {} => {
                self.kind[k] = K_RETIRE_CONNECTION_ID;
                let size = frame.encoding_size();
                assert!(size <= RAW);
                let mut enc = EncoderBuffer::new(&mut self.raw[k]);
                enc.encode(frame);
                let len = enc.len();
                self.raw_len[k] = len;
                // RFC 9000 19.16: type 0x19, then the sequence number as a varint, nothing else
                assert!(len >= 2 && self.raw[k][0] == 0x19);
                match ref_varint(&self.raw[k][1..len]) {
                    Some((v, used)) => {
                        assert!(used + 1 == len);
                        self.a[k] = v;
                    }
                    None => panic!("RETIRE_CONNECTION_ID body is not a varint"),
                }
            }
            _ => {
                self.kind[k] = K_OTHER;
            }
        }
        self.n += 1;
        self.frames_left -= 1;
        true
    }
}

impl transmission::Writer for RecCtx {
    fn current_time(&self) -> Timestamp {
        self.now
    }
    fn transmission_constraint(&self) -> transmission::Constraint {
        self.constraint
    }
    fn transmission_mode(&self) -> transmission::Mode {
        transmission::Mode::Normal
    }
    fn remaining_capacity(&self) -> usize {
        self.frames_left * RAW
    }
    fn write_frame<F>(&mut self, frame: &F) -> Option<PacketNumber>
    where
        F: EncoderValue + FrameTrait,
        for<'f> &'f F: IntoEvent<event::builder::Frame>,
    {
        if self.record(frame) {
            Some(self.pn)
        } else {
            None
        }
    }
    fn write_fitted_frame<F>(&mut self, frame: &F) -> PacketNumber
    where
        F: EncoderValue + FrameTrait,
        for<'f> &'f F: IntoEvent<event::builder::Frame>,
    {
        assert!(self.record(frame), "fitted frame did not fit");
        self.pn
    }
    fn write_frame_forced<F>(&mut self, frame: &F) -> Option<PacketNumber>
    where
        F: EncoderValue + FrameTrait,
        for<'f> &'f F: IntoEvent<event::builder::Frame>,
    {
        self.write_frame(frame)
    }
    fn ack_elicitation(&self) -> AckElicitation {
        if self.n > 0 {
            AckElicitation::Eliciting
        } else {
            AckElicitation::NonEliciting
        }
    }
    fn packet_number(&self) -> PacketNumber {
        self.pn
    }
    fn local_endpoint_type(&self) -> endpoint::Type {
        endpoint::Type::Server
    }
    fn header_len(&self) -> usize {
        0
    }
    fn tag_len(&self) -> usize {
        0
    }
}
