// C11 (replies to datagrams that belong to no connection): the server-side version Negotiator.
// One incoming long-header packet (concrete layout: 3-byte DCID, 4-byte SCID, empty token, 5+16
// payload bytes; packet type bits and the 32-bit version symbolic) in a datagram of symbolic length:
//  * a Version Negotiation reply is queued ONLY for an Initial with an unsupported version in a
//    datagram of at least 1200 bytes - never for a Version Negotiation packet (version 0), never
//    for 0-RTT/Handshake/Retry, never for a supported version;
//  * the queued reply is smaller than its trigger, carries version 0, echoes the client's SCID as
//    DCID and DCID as SCID (RFC 9000 17.2.1) and lists version 1.
use super::*;
#[cfg(not(kani))]
use crate::kani;
use crate::endpoint::testing;
use s2n_codec::DecoderBufferMut;
use s2n_quic_core::{
    connection::id::ConnectionInfo, event::testing::Publisher, inet::SocketAddress, path::RemoteAddress,
};

#[cfg_attr(kani, kani::proof)]
#[cfg_attr(kani, kani::unwind(24))]
#[cfg_attr(kani, kani::stub(alloc::fmt::format, stub_format))]
#[cfg_attr(kani, kani::stub(Transmission::new, stub_transmission_new))]
fn verif_version_negotiator_on_initial() {
    let f = negotiator_case(0);
    kani::cover!(f.decoded && f.is_vn, "Version Negotiation packet never answered");
    kani::cover!(f.answered && f.payload_len == 1200, "unsupported version in a datagram of exactly 1200 bytes answered");
    kani::cover!(f.decoded && !f.is_vn && f.version != 1 && f.payload_len == 1199, "unsupported version in a short datagram dropped");
    kani::cover!(f.decoded && f.version == 1, "supported version passed on");
}

#[cfg_attr(kani, kani::proof)]
#[cfg_attr(kani, kani::unwind(24))]
#[cfg_attr(kani, kani::stub(alloc::fmt::format, stub_format))]
#[cfg_attr(kani, kani::stub(Transmission::new, stub_transmission_new))]
fn verif_version_negotiator_on_zero_rtt() {
    let f = negotiator_case(1);
    kani::cover!(f.decoded && !f.is_vn && f.version != 1 && f.payload_len >= 1200, "0-RTT packet with an unknown version never answered");
}

#[cfg_attr(kani, kani::proof)]
#[cfg_attr(kani, kani::unwind(24))]
#[cfg_attr(kani, kani::stub(alloc::fmt::format, stub_format))]
#[cfg_attr(kani, kani::stub(Transmission::new, stub_transmission_new))]
fn verif_version_negotiator_on_handshake() {
    let f = negotiator_case(2);
    kani::cover!(f.decoded && !f.is_vn && f.version != 1 && f.payload_len >= 1200, "Handshake packet with an unknown version never answered");
}

struct Facts {
    decoded: bool,
    is_vn: bool,
    answered: bool,
    version: u32,
    payload_len: usize,
}

// the testing event publisher renders every event with format!("{:?}"): formatting is not the
// subject and explodes under CBMC (measured: 5 M variables, out of memory at 25 GB)
#[cfg(kani)]
fn stub_format(_args: core::fmt::Arguments<'_>) -> alloc::string::String {
    alloc::string::String::new()
}

// Cut: Transmission::new (encodes the reply into a 1200-byte array that is then moved into the
// VecDeque) - with it the SAT instance ran out of memory at 25 GB although symbolic execution takes
// 5 s. The recording stub counts the calls; the reply bytes are decided separately below.
#[cfg(kani)]
static mut REPLIES_BUILT: usize = 0;

#[cfg(kani)]
fn stub_transmission_new<Path: path::Handle>(
    path: Path,
    _initial_packet: &packet::initial::ProtectedInitial,
) -> Transmission<Path> {
    unsafe { REPLIES_BUILT += 1 };
    Transmission { path, packet: [0u8; MINIMUM_MAX_DATAGRAM_SIZE as usize], packet_len: 0 }
}

// ty: 0 Initial, 1 0-RTT, 2 Handshake (Retry carries no length/payload)
fn negotiator_case(ty: u8) -> Facts {
    let version: u32 = kani::any();
    // long header: 1 1 TT RR PP  (reserved 0, packet number length 1)
    let first = 0xc0 | (ty << 4);
    let v = version.to_be_bytes();
    let mut buf = [0u8; 40];
    let mut n = 0;
    let mut put = |b: u8, buf: &mut [u8; 40], n: &mut usize| {
        buf[*n] = b;
        *n += 1;
    };
    put(first, &mut buf, &mut n);
    put(v[0], &mut buf, &mut n);
    put(v[1], &mut buf, &mut n);
    put(v[2], &mut buf, &mut n);
    put(v[3], &mut buf, &mut n);
    put(3, &mut buf, &mut n); // DCID len
    put(0xd1, &mut buf, &mut n);
    put(0xd2, &mut buf, &mut n);
    put(0xd3, &mut buf, &mut n);
    put(4, &mut buf, &mut n); // SCID len
    put(0x51, &mut buf, &mut n);
    put(0x52, &mut buf, &mut n);
    put(0x53, &mut buf, &mut n);
    put(0x54, &mut buf, &mut n);
    if ty == 0 {
        put(0, &mut buf, &mut n); // token length (Initial only)
    }
    put(22, &mut buf, &mut n); // length: 1 packet number byte + 21 payload bytes
    // the 22 bytes after the length stay zero (they are never looked at before decryption)
    n += 22;
    let remote_address = SocketAddress::default();
    let connection_info = ConnectionInfo::new(&remote_address);
    let decoded = ProtectedPacket::decode(DecoderBufferMut::new(&mut buf[..n]), &connection_info, &3);
    let packet = match decoded {
        Ok((p, _)) => p,
        Err(_) => {
            // version 0 with these type bits is not a well-formed Version Negotiation packet for
            // every value: nothing reaches the negotiator
            return Facts { decoded: false, is_vn: false, answered: false, version, payload_len: 0 };
        }
    };
    let payload_len: usize = kani::any();
    kani::assume(payload_len >= n && payload_len <= 65535);
    let mut negotiator: Negotiator<testing::Server> = Negotiator::new(2);
    let mut publisher = Publisher::no_snapshot();
    let path = RemoteAddress::from(SocketAddress::default());
    let r = negotiator.on_packet(&path, payload_len, &packet, &mut publisher);

    let is_vn = matches!(packet, ProtectedPacket::VersionNegotiation(_));
    let is_initial = matches!(packet, ProtectedPacket::Initial(_));
    // the implementation's own list of supported versions (today: QUIC v1 only)
    let supported = SUPPORTED_VERSIONS.contains(&version);
    let queued = negotiator.transmissions.len();
    if is_vn {
        assert!(version == 0);
        assert!(queued == 0);
        #[cfg(kani)]
        assert!(unsafe { REPLIES_BUILT } == 0);
    } else if is_initial && !supported && payload_len >= 1200 {
        assert!(r.is_err());
        assert!(queued == 1);
        #[cfg(kani)]
        assert!(unsafe { REPLIES_BUILT } == 1);
        #[cfg(not(kani))]
        {
            // strictly smaller than the datagram that caused it
            let t = negotiator.transmissions.front().unwrap();
            assert!(t.as_ref().len() < payload_len);
        }
    } else {
        assert!(queued == 0);
        #[cfg(kani)]
        assert!(unsafe { REPLIES_BUILT } == 0);
        assert!(r.is_ok() == (supported || !(is_initial || matches!(packet, ProtectedPacket::ZeroRtt(_)))));
    }
    core::mem::forget(negotiator);
    core::mem::forget(publisher);
    Facts { decoded: true, is_vn, answered: queued == 1, version, payload_len }
}

// the reply itself (the encoding Transmission::new performs, for a decoded Initial with symbolic
// unsupported version):
// RFC 9000 17.2.1 - long header form, version 0, the client's SCID as DCID and DCID as SCID, lists
// version 1 - and 22 bytes long, i.e. far below the 1200 bytes of any datagram that triggers it.
#[cfg_attr(kani, kani::proof)]
#[cfg_attr(kani, kani::unwind(24))]
fn verif_version_negotiation_reply_bytes() {
    let version: u32 = kani::any();
    kani::assume(version != 0 && !SUPPORTED_VERSIONS.contains(&version));
    let v = version.to_be_bytes();
    let mut buf = [0u8; 40];
    let head = [0xc0, v[0], v[1], v[2], v[3], 3, 0xd1, 0xd2, 0xd3, 4, 0x51, 0x52, 0x53, 0x54, 0, 22];
    buf[..16].copy_from_slice(&head);
    let n = 16 + 22;
    let remote_address = SocketAddress::default();
    let connection_info = ConnectionInfo::new(&remote_address);
    let decoded = ProtectedPacket::decode(DecoderBufferMut::new(&mut buf[..n]), &connection_info, &3);
    let packet = match decoded {
        Ok((ProtectedPacket::Initial(p), _)) => p,
        _ => panic!("well-formed Initial not decoded"),
    };
    // exactly what Transmission::new encodes, into a 64-byte instead of a 1200-byte buffer (with the
    // 1200-byte array the SAT instance runs out of memory at 25 GB)
    let version_packet =
        packet::version_negotiation::VersionNegotiation::from_initial(&packet, SupportedVersions);
    let announced = version_packet.encoding_size();
    let mut out = [0u8; 64];
    let mut encoder = EncoderBuffer::new(&mut out);
    version_packet.encode(&mut encoder);
    let len = encoder.len();
    let reply = &out[..len];
    // header (14 bytes for these connection IDs) + a non-empty list of 32-bit versions; the size
    // announced beforehand is the size written; far below the 1200 bytes of any trigger
    assert!(len == announced);
    assert!(len >= 14 + 4 && len <= 64 && (len - 14) % 4 == 0);
    assert!(reply[0] & 0x80 != 0);
    assert!(reply[1] == 0 && reply[2] == 0 && reply[3] == 0 && reply[4] == 0);
    assert!(reply[5] == 4 && reply[6] == 0x51 && reply[7] == 0x52 && reply[8] == 0x53 && reply[9] == 0x54);
    assert!(reply[10] == 3 && reply[11] == 0xd1 && reply[12] == 0xd2 && reply[13] == 0xd3);
    // QUIC version 1 is offered (s2n-quic supports it), and the client's own version is not
    let mut has_v1 = false;
    let mut k = 14;
    while k + 4 <= len {
        let listed = u32::from_be_bytes([reply[k], reply[k + 1], reply[k + 2], reply[k + 3]]);
        if listed == 1 {
            has_v1 = true;
        }
        k += 4;
    }
    assert!(has_v1);
    kani::cover!(true, "reply built");
}

// ---- generated by tools/fixup.py: native replay entry ----
#[cfg(not(kani))]
#[test]
fn verif_replay() {
    kani::replay(&[
        ("verif_version_negotiator_on_initial", verif_version_negotiator_on_initial),
        ("verif_version_negotiator_on_zero_rtt", verif_version_negotiator_on_zero_rtt),
        ("verif_version_negotiator_on_handshake", verif_version_negotiator_on_handshake),
        ("verif_version_negotiation_reply_bytes", verif_version_negotiation_reply_bytes),
    ]);
}
