// C04-O4*: ReceiveStream (the receive half of a stream, RFC 9000 3.2 / 4.1 / 4.5) - one incoming
// STREAM / RESET_STREAM frame, one application stop, one transmission from an ARBITRARY valid
// stream state.  What is real: ReceiveStream::{on_data,on_reset,init_reset,poll_request (stop
// path),on_transmit,on_packet_ack,on_packet_loss}, ReceiveStreamFlowController, the connection
// flow controller shared with "another stream", the reassembler's cursor accessors / reset.
// What is cut: Reassembler::write_at / write_at_fin (the slot list is out of reach for CBMC, see
// harness/core/reassembler_cursors.rs) are replaced under Kani by a RECORDING stub that notes what
// it was handed and then behaves as the contract that C01-O2c/O2d decided for the real
// write_reader on a slot-free buffer (final-size rules, cursor update, nothing stored).
use super::super::*;
#[cfg(not(kani))]
use crate::kani;
use crate::verif_support::{pn, ref_varint, StubCtx};
use s2n_quic_core::packet::number::PacketNumberRange;

const M: u64 = (1 << 62) - 1;
const UNKNOWN: u64 = u64::MAX;

// StreamError::stream_reset records its caller (#[track_caller]); caller_location is not supported
// by Kani, so Location::caller is replaced by a constant location
#[cfg(kani)]
static VERIF_LOC: &core::panic::Location<'static> = core::panic::Location::caller();
#[cfg(kani)]
struct StubLoc<'a>(core::marker::PhantomData<&'a ()>);
#[cfg(kani)]
impl<'a> StubLoc<'a> {
    fn caller() -> &'static core::panic::Location<'static> {
        VERIF_LOC
    }
}

fn vi(max: u64) -> VarInt {
    let v: u64 = kani::any();
    kani::assume(v <= max);
    VarInt::new(v).unwrap()
}

// ---------------------------------------------------------------------------------------------
// The reassembler's cursors are private to s2n-quic-core and cannot be driven to an arbitrary
// value through its API without the slot list.  They are reached through the object
// representation instead: Reassembler = { VecDeque<Slot> (4 words), Cursors { start_offset,
// max_recv_offset, final_offset } (3 words) }.  Where the three words lie is FOUND (a fresh
// reassembler holds (0, 0, u64::MAX)) and every write is VALIDATED through the public accessors,
// so a different layout fails the harness instead of silently testing something else.
#[derive(Clone, Copy, PartialEq, Debug)]
struct Cur {
    start: u64,
    max_recv: u64,
    fin: u64,
}

const _: () = assert!(core::mem::size_of::<Reassembler>() == 7 * 8);

fn cursor_word(r: &Reassembler) -> usize {
    let p = r as *const Reassembler as *const u64;
    // the word holding final_offset of a reassembler whose final size is unknown
    debug_assert!(r.final_size().is_none());
    unsafe {
        if p.add(6).read() == UNKNOWN {
            4
        } else {
            assert!(p.add(2).read() == UNKNOWN);
            0
        }
    }
}

fn get_cursors(r: &Reassembler, w: usize) -> Cur {
    let p = r as *const Reassembler as *const u64;
    unsafe { Cur { start: p.add(w).read(), max_recv: p.add(w + 1).read(), fin: p.add(w + 2).read() } }
}

fn set_cursors(r: &mut Reassembler, w: usize, c: Cur) {
    let p = r as *mut Reassembler as *mut u64;
    unsafe {
        p.add(w).write(c.start);
        p.add(w + 1).write(c.max_recv);
        p.add(w + 2).write(c.fin);
    }
    // validation: first and last word are what the accessors report; the word in between
    // is then the remaining field of the 3-word Cursors struct
    assert!(r.consumed_len() == c.start);
    assert!(r.final_size() == if c.fin == UNKNOWN { None } else { Some(c.fin) });
    assert!(r.is_empty());
}

/// natively: the middle word really is max_recv_offset (a FIN below it is refused, at it accepted)
#[cfg(not(kani))]
fn validate_layout() {
    let mut r = Reassembler::new();
    let w = cursor_word(&r);
    set_cursors(&mut r, w, Cur { start: 3, max_recv: 10, fin: UNKNOWN });
    assert!(r.write_at_fin(VarInt::from_u8(9), &[]).is_err());
    assert!(r.final_size().is_none());
    assert!(r.write_at_fin(VarInt::from_u8(10), &[]).is_ok());
    assert!(r.final_size() == Some(10));
}
#[cfg(kani)]
fn validate_layout() {}

// ---------------------------------------------------------------------------------------------
// recording stub for the buffer write
#[cfg(kani)]
static mut WR_CALLS: u32 = 0;
#[cfg(kani)]
static mut WR_OFF: u64 = 0;
#[cfg(kani)]
static mut WR_LEN: usize = 0;
#[cfg(kani)]
static mut WR_FIN: bool = false;
#[cfg(kani)]
static mut WR_PTR: usize = 0;
#[cfg(kani)]
static mut WR_WORD: usize = 0;

#[cfg(kani)]
fn record_write(this: &mut Reassembler, offset: VarInt, data: &[u8], is_fin: bool) -> Result<(), buffer::Error> {
    unsafe {
        WR_CALLS += 1;
        WR_OFF = offset.as_u64();
        WR_LEN = data.len();
        WR_FIN = is_fin;
        WR_PTR = data.as_ptr() as usize;
    }
    let w = unsafe { WR_WORD };
    let c = get_cursors(this, w);
    // precondition the caller must have established (Request::new would refuse with OutOfRange)
    let end = offset.as_u64() + data.len() as u64;
    assert!(end <= M);
    // contract of the real write_reader on a buffer without slots (C01-O2c / C01-O2d)
    let known = c.fin != UNKNOWN;
    let reject = if is_fin {
        if known {
            end != c.fin
        } else {
            end < c.max_recv
        }
    } else {
        known && end > c.fin
    };
    if reject {
        return Err(buffer::Error::InvalidFin);
    }
    let p = this as *mut Reassembler as *mut u64;
    unsafe {
        p.add(w + 1).write(if end > c.max_recv { end } else { c.max_recv });
        if is_fin {
            p.add(w + 2).write(end);
        }
    }
    Ok(())
}

// Second, deeper cut: Reassembler::write_at / write_at_fin / write_reader and the cursor logic
// (Request::new, skip_until, Cursors::handle_reader_fin) run for real; only the private slot-list
// part write_reader_impl is replaced.  It records the (trimmed) segment it is handed.
#[cfg(kani)]
static mut WR_END: u64 = 0;

#[cfg(kani)]
fn stub_write_reader_impl<R>(_this: &mut Reassembler, reader: &mut R) -> Result<(), R::Error>
where
    R: buffer::Reader + ?Sized,
{
    unsafe {
        WR_CALLS += 1;
        WR_OFF = reader.current_offset().as_u64();
        WR_LEN = reader.buffered_len();
        WR_FIN = reader.final_offset().is_some();
        WR_END = reader.final_offset().map_or(UNKNOWN, |v| v.as_u64());
    }
    Ok(())
}

#[cfg(kani)]
fn stub_write_at(this: &mut Reassembler, offset: VarInt, data: &[u8]) -> Result<(), buffer::Error> {
    record_write(this, offset, data, false)
}

#[cfg(kani)]
fn stub_write_at_fin(this: &mut Reassembler, offset: VarInt, data: &[u8]) -> Result<(), buffer::Error> {
    record_write(this, offset, data, true)
}

// NOTE on covers: the driver replays at most six playback vectors natively and Kani lists a
// counterexample that coincides with a cover witness only under that cover - so every harness here
// keeps at most six covers (one per outcome branch first).

// ---------------------------------------------------------------------------------------------
// state builder

/// books of one receive stream and of the connection it shares with other streams
#[derive(Clone, Copy)]
struct Books {
    s_window: u32,
    /// consumed by the application and released
    released: u64,
    /// highest offset charged to the stream and to the connection
    acquired: u64,
    conn_window: u32,
    /// connection bytes consumed (over all streams) before the step
    conn_consumed: u64,
    /// connection bytes charged (over all streams) before the step
    conn_acquired: u64,
}

impl Books {
    /// largest MAX_STREAM_DATA the endpoint has made available (RFC 9000 4.1: consumed + window)
    fn adv(&self) -> u64 {
        (self.released + self.s_window as u64).min(M)
    }
    fn conn_remaining(&self) -> u64 {
        self.conn_consumed + self.conn_window as u64 - self.conn_acquired
    }
}

const RECEIVING: u8 = 0;
const STOPPING: u8 = 1;
const RESET: u8 = 2;
const DATA_READ: u8 = 3;

struct Fix {
    s: ReceiveStream,
    conn: IncomingConnectionFlowController,
    b: Books,
    /// buffer cursors before the step
    c: Cur,
    w: usize,
    kind: u8,
    /// Stopping: the missing range and the error code of the pending STOP_SENDING;
    /// Reset: the error code of the reset
    ms: u64,
    me: u64,
    code: u64,
    /// largest MAX_STREAM_DATA value the peer has acknowledged
    ackd: u64,
}

fn reset_code(e: &StreamError) -> Option<u64> {
    match e {
        StreamError::StreamReset { error, .. } => Some(u64::from(*error)),
        _ => None,
    }
}

/// A stream at an arbitrary point of its life in the given state, the connection window being
/// shared with other streams that hold `other` unconsumed bytes.
///  * Receiving: consumed == released <= highest offset seen == charged; a known final size was
///    charged in full (on_data acquires up to the end of the FIN frame) and stopped MAX_STREAM_DATA
///  * Stopping: buffer dropped, STOP_SENDING requested, books as they were
///  * Reset / DataRead: buffer dropped, everything charged has been released, nothing to send
fn any_stream(kind: u8) -> Fix {
    let conn_window: u32 = kani::any();
    let s_window: u32 = kani::any();
    let conn_init = vi(M);
    let s_init = vi(M);
    kani::assume(conn_init.as_u64() <= conn_window as u64 && s_init.as_u64() <= s_window as u64);
    let mut conn = IncomingConnectionFlowController::new(conn_init, conn_window);
    let mut s = ReceiveStream::new(false, conn.clone(), s_init, s_window);

    // stream books: released <= acquired <= released + window
    let released = vi(M);
    let acquired = vi(M);
    kani::assume(released <= acquired && acquired.as_u64() <= (released.as_u64() + s_window as u64).min(M));
    if kind == RESET || kind == DATA_READ {
        kani::assume(released == acquired);
    }
    s.flow_controller.released_connection_window = released;
    s.flow_controller.acquired_connection_window = acquired;
    let adv = VarInt::new((released.as_u64() + s_window as u64).min(M)).unwrap();
    // what release_window leaves behind: latest value = released + window; the peer has
    // acknowledged some value up to that
    let ackd = vi(M);
    kani::assume(ackd <= adv);
    s.flow_controller.read_window_sync = IncrementalValueSync::new(adv, ackd, VarInt::from_u32(s_window / 10));

    // connection books, reached through the API: k bytes consumed earlier, then the unconsumed
    // bytes of this stream and of the others are charged
    let k: u32 = kani::any();
    let other: u32 = kani::any();
    let unreleased = acquired.as_u64() - released.as_u64();
    kani::assume(k <= conn_window && other as u64 + unreleased <= conn_window as u64);
    if k > 0 {
        assert!(conn.acquire_window(VarInt::from_u32(k)).is_ok());
        conn.release_window(VarInt::from_u32(k));
    }
    let out = VarInt::new(other as u64 + unreleased).unwrap();
    assert!(conn.acquire_window(out).is_ok());
    let b = Books {
        s_window,
        released: released.as_u64(),
        acquired: acquired.as_u64(),
        conn_window,
        conn_consumed: k as u64,
        conn_acquired: k as u64 + out.as_u64(),
    };
    assert!(conn.acquired_window().as_u64() == b.conn_acquired);

    let w = cursor_word(&s.receive_buffer);
    let mut c = Cur { start: 0, max_recv: 0, fin: UNKNOWN };
    let (mut ms, mut me, mut code) = (0, 0, 0);
    match kind {
        RECEIVING => {
            let fin_known: bool = kani::any();
            if fin_known {
                let max_recv: u64 = kani::any();
                kani::assume(b.released <= max_recv && max_recv <= b.acquired);
                c = Cur { start: b.released, max_recv, fin: b.acquired };
                // Size Known: MAX_STREAM_DATA is no longer synchronised
                s.flow_controller.stop_sync();
            } else {
                c = Cur { start: b.released, max_recv: b.acquired, fin: UNKNOWN };
            }
            set_cursors(&mut s.receive_buffer, w, c);
        }
        STOPPING => {
            code = vi(M).as_u64();
            ms = vi(M).as_u64();
            me = if kani::any() { u64::MAX } else { vi(M).as_u64() };
            let app: application::Error = VarInt::new(code).unwrap().into();
            s.state = ReceiveStreamState::Stopping {
                error: StreamError::stream_reset(app),
                missing_data: MissingData { start: ms, end: me },
            };
            s.stop_sending_sync.request_delivery(app);
            s.detached = true;
        }
        RESET => {
            code = vi(M).as_u64();
            let app: application::Error = VarInt::new(code).unwrap().into();
            s.state = ReceiveStreamState::Reset(StreamError::stream_reset(app));
            s.flow_controller.stop_sync();
            s.stop_sending_sync.stop_sync();
            s.detached = kani::any();
            s.final_state_observed = s.detached;
        }
        _ => {
            s.state = ReceiveStreamState::DataRead;
            s.flow_controller.stop_sync();
            s.stop_sending_sync.stop_sync();
            s.detached = kani::any();
            s.final_state_observed = s.detached;
        }
    }
    Fix { s, conn, b, c, w, kind, ms, me, code, ackd: ackd.as_u64() }
}

fn any_kind() -> u8 {
    let k: u8 = kani::any();
    kani::assume(k <= DATA_READ);
    k
}

/// observes the connection's remaining credit (consumed + window - acquired) from outside with a
/// symbolic probe; must be the last thing done with the controller
fn conn_remaining_is(conn: &IncomingConnectionFlowController, expected: u64) -> bool {
    let probe = vi(M);
    let mut c = conn.clone();
    c.acquire_window(probe).is_ok() == (probe.as_u64() <= expected)
}

fn is_code(e: &transport::Error, c: transport::Error) -> bool {
    e.code == c.code
}

fn state_kind(s: &ReceiveStream) -> u8 {
    match s.state {
        ReceiveStreamState::Receiving => RECEIVING,
        ReceiveStreamState::Stopping { .. } => STOPPING,
        ReceiveStreamState::Reset(_) => RESET,
        ReceiveStreamState::DataRead => DATA_READ,
    }
}

fn books_unchanged(f: &Fix) -> bool {
    f.s.flow_controller.acquired_connection_window.as_u64() == f.b.acquired
        && f.s.flow_controller.released_connection_window.as_u64() == f.b.released
        && f.conn.acquired_window().as_u64() == f.b.conn_acquired
        && f.s.flow_controller.read_window_sync.latest_value().as_u64() == f.b.adv()
}

fn any_frame<'a>(payload: &'a [u8; 4]) -> (StreamRef<'a>, u64, usize, bool) {
    let off = vi(M);
    let len: usize = kani::any();
    kani::assume(len <= 4);
    let is_fin: bool = kani::any();
    let frame = StreamRef {
        stream_id: VarInt::from_u8(4),
        offset: off,
        is_last_frame: kani::any(),
        is_fin,
        data: &payload[..len],
    };
    (frame, off.as_u64(), len, is_fin)
}

// The step is written once and expanded into both harnesses.  `$deep` says which cut is active under
// Kani (decides how the recorded values are read); `$cov` is kani::cover for the first harness and
// nothing for the second, which keeps two covers only (it is the slower one: ~4.3 M SAT variables).
// Measured: under a mutation Kani reports the failing check of the second harness, but
// kani-driver's concrete playback for it dies (allocation failure at 16 GB, killed at 20 GB), so
// the driver answers "inconclusive" (exit 2) for it; the first harness reproduces natively.
macro_rules! cov_on {
    ($c:expr, $t:literal) => {
        kani::cover!($c, $t)
    };
}
macro_rules! cov_off {
    ($c:expr, $t:literal) => {};
}
macro_rules! on_data_receiving {
    ($deep:literal, $cov:ident) => {{
    #[allow(unused_variables)]
    let deep: bool = $deep;
    validate_layout();
    let mut f = any_stream(RECEIVING);
    let (b, c, w) = (f.b, f.c, f.w);
    #[cfg(kani)]
    unsafe {
        WR_WORD = w;
        WR_CALLS = 0;
    }
    // a reader may be parked on the stream
    let parked: bool = kani::any();
    if parked {
        let lw: usize = kani::any();
        f.s.read_waiter = Some((Waker::noop().clone(), lw));
    }
    let payload: [u8; 4] = kani::any();
    let (frame, off, len, is_fin) = any_frame(&payload);
    let mut events = StreamEvents::new();
    let r = f.s.on_data(&frame, &mut events);

    // ---- oracle (RFC 9000 4.1, 4.5, 19.8) ----
    let end = off as u128 + len as u128;
    let known = c.fin != UNKNOWN;
    let overflow = end > M as u128;
    let end = end as u64;
    // flow control is applied while the final size is open; afterwards every byte up to the final
    // size has been accounted and data beyond it is a final-size violation
    let additional = end.saturating_sub(b.acquired);
    let over_stream = !known && end > b.adv();
    let over_conn = !known && additional > b.conn_remaining();
    let fin_violation = if is_fin {
        if known {
            end != c.fin
        } else {
            end < c.max_recv
        }
    } else {
        known && end > c.fin
    };
    let post = get_cursors(&f.s.receive_buffer, w);
    #[cfg(kani)]
    let calls = unsafe { WR_CALLS };

    if overflow || over_stream || over_conn {
        $cov!(!overflow && over_stream && !over_conn, "beyond the stream limit only");
        kani::cover!(!overflow && !over_stream && over_conn, "beyond the connection limit only");
        assert!(matches!(&r, Err(e) if is_code(e, transport::Error::FLOW_CONTROL_ERROR)));
        // the offending data never reaches the buffer and is not accounted
        #[cfg(kani)]
        assert!(calls == 0);
        assert!(post == c);
        assert!(books_unchanged(&f));
        assert!(f.s.state == ReceiveStreamState::Receiving);
        assert!(events.read_wake.is_none());
    } else if fin_violation {
        $cov!(is_fin && !known, "FIN below data already received");
        $cov!(!is_fin, "data beyond the known final size");
        assert!(matches!(&r, Err(e) if is_code(e, transport::Error::FINAL_SIZE_ERROR)));
        // nothing is stored, the final size does not change
        #[cfg(kani)]
        assert!(!deep || calls == 0);
        assert!(post == c);
        assert!(books_unchanged(&f));
        assert!(f.s.state == ReceiveStreamState::Receiving);
        assert!(events.read_wake.is_none());
    } else {
        kani::cover!(!known && end == b.adv() && additional > 0, "new data up to exactly the stream limit");
        assert!(r.is_ok());
        // the frame reaches the buffer exactly once, unmodified
        #[cfg(kani)]
        unsafe {
            assert!(calls == 1);
            if deep {
                // ... trimmed to what the application has not consumed yet
                if end > c.start {
                    assert!(WR_OFF == off.max(c.start) && WR_OFF + WR_LEN as u64 == end);
                } else {
                    assert!(WR_LEN == 0);
                }
                assert!(WR_FIN == is_fin && (!is_fin || WR_END == end));
            } else {
                assert!(WR_OFF == off && WR_LEN == len && WR_FIN == is_fin);
                assert!(WR_PTR == payload.as_ptr() as usize);
            }
        }
        // every new byte is charged once to the stream and once to the connection
        let acq1 = if known { b.acquired } else { b.acquired + additional };
        assert!(f.s.flow_controller.acquired_connection_window.as_u64() == acq1);
        assert!(f.conn.acquired_window().as_u64() == b.conn_acquired + (acq1 - b.acquired));
        assert!(f.s.flow_controller.released_connection_window.as_u64() == b.released);
        let fin1 = if is_fin { end } else { c.fin };
        if is_fin && end == c.start {
            // FIN of a stream whose data was all consumed already: Data Read, reader released
            $cov!(parked, "FIN completes a fully consumed stream with a parked reader");
            assert!(f.s.state == ReceiveStreamState::DataRead);
            assert!(post == Cur { start: 0, max_recv: 0, fin: UNKNOWN });
            assert!(events.read_wake.is_some() == parked);
        } else {
            assert!(f.s.state == ReceiveStreamState::Receiving);
            assert!(post.start == c.start && post.fin == fin1);
            assert!(post.max_recv == c.max_recv.max(end));
            // invariant of the Receiving state, re-established
            assert!(if fin1 == UNKNOWN { post.max_recv == acq1 } else { post.max_recv <= acq1 && fin1 == acq1 });
        }
        if fin1 != UNKNOWN {
            // Size Known: no further MAX_STREAM_DATA (RFC 9000 3.2)
            assert!(f.s.flow_controller.read_window_sync.is_cancelled());
            assert!(!f.s.flow_controller.read_window_sync.has_transmission_interest());
        }
    }
    // the advertised stream limit never moves on incoming data
    assert!(f.s.flow_controller.read_window_sync.latest_value().as_u64() == b.adv());
    core::mem::forget(events);
    core::mem::forget(f);
    }};
}

// ---------------------------------------------------------------------------------------------
// C04-O4a: one STREAM frame on a stream in the Receiving state (Recv / Size Known of RFC 9000 3.2)
#[cfg_attr(kani, kani::proof)]
#[cfg_attr(kani, kani::unwind(6))]
#[cfg_attr(kani, kani::stub(Reassembler::write_at, stub_write_at))]
#[cfg_attr(kani, kani::stub(Reassembler::write_at_fin, stub_write_at_fin))]
fn verif_rx_on_data_receiving() {
    on_data_receiving!(false, cov_on);
}

// C04-O4a2: the same step with the deeper cut (real cursor logic of the reassembler)
#[cfg_attr(kani, kani::proof)]
#[cfg_attr(kani, kani::unwind(6))]
#[cfg_attr(kani, kani::stub(Reassembler::write_reader_impl, stub_write_reader_impl))]
fn verif_rx_on_data_receiving_real_cursors() {
    on_data_receiving!(true, cov_off);
}

// ---------------------------------------------------------------------------------------------
// C04-O4b: one STREAM frame after the receive side has left the Receiving state: stopped by the
// application (STOP_SENDING requested), reset, or completely read.  The code ignores the data in
// all three states (no flow-control or final-size check is made any more - see the remarks in
// on_data); in the Stopping state it only tracks whether everything the peer had sent before it
// learns of the STOP_SENDING has arrived, to stop repeating the STOP_SENDING.
#[cfg_attr(kani, kani::proof)]
#[cfg_attr(kani, kani::unwind(6))]
#[cfg_attr(kani, kani::stub(Reassembler::write_at, stub_write_at))]
#[cfg_attr(kani, kani::stub(Reassembler::write_at_fin, stub_write_at_fin))]
#[cfg_attr(kani, kani::stub(core::panic::Location::caller, StubLoc::caller))]
fn verif_rx_on_data_closed() {
    validate_layout();
    let kind = any_kind();
    kani::assume(kind != RECEIVING);
    let mut f = any_stream(kind);
    #[cfg(kani)]
    unsafe {
        WR_WORD = f.w;
        WR_CALLS = 0;
    }
    let payload: [u8; 4] = kani::any();
    let (frame, off, len, is_fin) = any_frame(&payload);
    // MissingData::on_data adds offset + length with the checked VarInt `+` (panics in debug
    // builds, plain u64 addition in release builds): frames beyond 2^62-1 are excluded here
    kani::assume(off + len as u64 <= M);
    let observed0 = f.s.final_state_observed;
    let mut events = StreamEvents::new();
    let r = f.s.on_data(&frame, &mut events);

    assert!(r.is_ok());
    // nothing is handed to the buffer, nothing is accounted, the state is kept
    #[cfg(kani)]
    assert!(unsafe { WR_CALLS } == 0);
    assert!(get_cursors(&f.s.receive_buffer, f.w) == Cur { start: 0, max_recv: 0, fin: UNKNOWN });
    assert!(books_unchanged(&f));
    assert!(state_kind(&f.s) == kind);
    assert!(events.read_wake.is_none());
    match &f.s.state {
        ReceiveStreamState::Stopping { error, missing_data } => {
            assert!(reset_code(error) == Some(f.code));
            // range model: [ms, me) is still missing (me = u64::MAX: end unknown)
            let end = off + len as u64;
            let covers = |x: u64| off <= x && x < end;
            let ms1 = if covers(f.ms) { end } else { f.ms };
            let me1 = if is_fin || covers(f.me) { f.me.min(off) } else { f.me };
            assert!(missing_data.start == ms1 && missing_data.end == me1);
            if ms1 >= me1 {
                // everything arrived: STOP_SENDING is not repeated, the stream may be dropped
                kani::cover!(is_fin && f.me == u64::MAX, "FIN closes the missing range");
                assert!(f.s.stop_sending_sync.is_cancelled());
                assert!(f.s.final_state_observed);
            } else {
                kani::cover!(ms1 > f.ms, "missing range shrinks");
                assert!(!f.s.stop_sending_sync.is_cancelled());
                assert!(f.s.stop_sending_sync.has_transmission_interest());
                assert!(f.s.final_state_observed == observed0);
            }
        }
        ReceiveStreamState::Reset(error) => {
            kani::cover!(len > 0, "data after a reset is dropped");
            assert!(reset_code(error) == Some(f.code));
            assert!(f.s.final_state_observed == observed0);
        }
        _ => {
            kani::cover!(len > 0, "data after the stream was read to its end is dropped");
            assert!(f.s.final_state_observed == observed0);
        }
    }
    core::mem::forget(events);
    core::mem::forget(f);
}

// ---------------------------------------------------------------------------------------------
// C04-O4c: one RESET_STREAM frame in every state (RFC 9000 3.2, 4.5)
#[cfg_attr(kani, kani::proof)]
#[cfg_attr(kani, kani::unwind(6))]
#[cfg_attr(kani, kani::stub(core::panic::Location::caller, StubLoc::caller))]
fn verif_rx_on_reset() {
    validate_layout();
    let kind = any_kind();
    let mut f = any_stream(kind);
    let (b, c, w) = (f.b, f.c, f.w);
    let parked: bool = kani::any();
    if parked {
        kani::assume(kind == RECEIVING);
        f.s.read_waiter = Some((Waker::noop().clone(), 0));
    }
    let fs = vi(M);
    let code = vi(M);
    let frame = ResetStream { stream_id: VarInt::from_u8(4), application_error_code: code, final_size: fs };
    let fs = fs.as_u64();
    let known = c.fin != UNKNOWN;
    // RFC 9000 4.5: data at or beyond the final size has been received
    let below_received = kind == RECEIVING && !known && fs < c.max_recv;
    // that region is the recorded finding (witness harness below): excluded here
    kani::assume(!below_received);
    let cancelled0 = f.s.stop_sending_sync.is_cancelled();
    let mut events = StreamEvents::new();
    let r = f.s.on_reset(&frame, &mut events);
    let post = get_cursors(&f.s.receive_buffer, w);

    let additional = fs.saturating_sub(b.acquired);
    let open = (kind == RECEIVING && !known) || kind == STOPPING;
    if kind == RESET || kind == DATA_READ {
        // terminal states: nothing left to do
        kani::cover!(kind == RESET, "second RESET_STREAM");
        assert!(r.is_ok());
        assert!(state_kind(&f.s) == kind && books_unchanged(&f) && post == c);
        if kind == RESET {
            assert!(matches!(&f.s.state, ReceiveStreamState::Reset(e) if reset_code(e) == Some(f.code)));
        }
    } else if kind == RECEIVING && known && fs != c.fin {
        kani::cover!(fs < c.fin, "RESET_STREAM with a smaller final size than the FIN");
        assert!(matches!(&r, Err(e) if is_code(e, transport::Error::FINAL_SIZE_ERROR)));
        assert!(state_kind(&f.s) == kind && books_unchanged(&f) && post == c);
        assert!(f.s.stop_sending_sync.is_cancelled() == cancelled0);
        assert!(events.read_wake.is_none());
    } else if open && (fs > b.adv() || additional > b.conn_remaining()) {
        kani::cover!(kind == RECEIVING && fs <= b.adv(), "final size beyond the connection limit");
        assert!(matches!(&r, Err(e) if is_code(e, transport::Error::FLOW_CONTROL_ERROR)));
        assert!(state_kind(&f.s) == kind && books_unchanged(&f) && post == c);
        assert!(f.s.stop_sending_sync.is_cancelled() == cancelled0);
        assert!(events.read_wake.is_none());
    } else if kind == RECEIVING && known && c.start == c.fin {
        // Data Recvd (all data received; here: and consumed): the reset may be ignored
        kani::cover!(true, "RESET_STREAM after all data was received");
        assert!(r.is_ok());
        assert!(state_kind(&f.s) == RECEIVING && books_unchanged(&f) && post == c);
    } else {
        kani::cover!(kind == RECEIVING && !known && additional > 0, "reset in Recv with a final size beyond the data received");
        kani::cover!(kind == STOPPING && additional > 0, "reset answering STOP_SENDING");
        assert!(r.is_ok());
        // Reset Recvd with the peer's error code; buffered data is discarded
        assert!(matches!(&f.s.state, ReceiveStreamState::Reset(e) if reset_code(e) == Some(code.as_u64())));
        assert!(post == Cur { start: 0, max_recv: 0, fin: UNKNOWN });
        // RFC 9000 4.5: the final size accounts for all bytes of the stream at connection level;
        // all of it is handed back (nothing will be read any more)
        let acq1 = b.acquired + additional;
        assert!(acq1 == b.acquired.max(fs));
        assert!(f.s.flow_controller.acquired_connection_window.as_u64() == acq1);
        assert!(f.s.flow_controller.released_connection_window.as_u64() == acq1);
        assert!(f.conn.acquired_window().as_u64() == b.conn_acquired + additional);
        // no MAX_STREAM_DATA, no STOP_SENDING any more
        assert!(f.s.flow_controller.read_window_sync.is_cancelled());
        assert!(f.s.stop_sending_sync.is_cancelled());
        let mut interests = StreamInterests::default();
        f.s.stream_interests(&mut interests);
        assert!(interests.transmission == crate::transmission::Interest::None);
        // a parked reader learns of the reset
        assert!(events.read_wake.is_some() == parked);
        // and the application gets the reset, never data
        let mut req = ops::rx::Request::default();
        let pr = f.s.poll_request(&mut req, None);
        assert!(matches!(&pr, Err(e) if reset_code(e) == Some(code.as_u64())));
        // connection credit: consumed grew by everything that was outstanding on this stream
        let remaining1 = b.conn_remaining() - additional + (acq1 - b.released);
        assert!(conn_remaining_is(&f.conn, remaining1));
    }
    core::mem::forget(events);
    core::mem::forget(f);
}

// Recorded finding (C04, RFC 9000 4.5): a RESET_STREAM whose final size lies BELOW data already
// received on a stream without FIN is accepted (init_reset compares the final size only against
// one announced by a FIN, never against the highest offset received).  RFC 9000 4.5: "A receiver
// SHOULD treat receipt of data at or beyond the final size as an error of type FINAL_SIZE_ERROR".
// Restricted to that region; expected to fail.
#[cfg_attr(kani, kani::proof)]
#[cfg_attr(kani, kani::unwind(6))]
#[cfg_attr(kani, kani::stub(core::panic::Location::caller, StubLoc::caller))]
fn verif_rx_on_reset_below_received_finding_witness() {
    validate_layout();
    let mut f = any_stream(RECEIVING);
    let c = f.c;
    let fs = vi(M);
    let frame = ResetStream { stream_id: VarInt::from_u8(4), application_error_code: vi(M), final_size: fs };
    kani::assume(c.fin == UNKNOWN && fs.as_u64() < c.max_recv);
    let mut events = StreamEvents::new();
    let r = f.s.on_reset(&frame, &mut events);
    kani::cover!(fs.as_u64() + 1 == c.max_recv, "RESET_STREAM one byte below the highest offset received");
    assert!(matches!(&r, Err(e) if is_code(e, transport::Error::FINAL_SIZE_ERROR)));
    core::mem::forget(events);
    core::mem::forget(f);
}

// ---------------------------------------------------------------------------------------------
// C04-O4d: the application stops reading (STOP_SENDING, RFC 9000 3.5) in every state
#[cfg_attr(kani, kani::proof)]
#[cfg_attr(kani, kani::unwind(9))]
#[cfg_attr(kani, kani::stub(core::panic::Location::caller, StubLoc::caller))]
fn verif_rx_stop_sending() {
    validate_layout();
    let kind = any_kind();
    let mut f = any_stream(kind);
    let (c, w) = (f.c, f.w);
    let known = c.fin != UNKNOWN;
    if kind == RECEIVING && kani::any() {
        f.s.read_waiter = Some((Waker::noop().clone(), 0));
    }
    let code = vi(M);
    let mut req = ops::rx::Request::default();
    req.stop_sending = Some(code.into());
    let r = f.s.poll_request(&mut req, None);
    let post = get_cursors(&f.s.receive_buffer, w);
    let status = r.as_ref().ok().map(|resp| resp.status);
    assert!(r.is_ok());
    // stopping neither charges nor releases flow-control credit
    assert!(books_unchanged(&f));
    let sid = StreamId::from_varint(VarInt::from_u8(4));
    let mut ctx = StubCtx::new(24);
    // keep MAX_STREAM_DATA out of the way: only STOP_SENDING is of interest below
    f.s.flow_controller.stop_sync();
    if kind == RESET || kind == STOPPING {
        // already reset / stopped: the first error is reported, nothing new is requested
        kani::cover!(kind == STOPPING && code.as_u64() != f.code, "second stop with another error code");
        assert!(matches!(status, Some(ops::Status::Reset(e)) if reset_code(&e) == Some(f.code)));
        assert!(state_kind(&f.s) == kind);
        if let ReceiveStreamState::Stopping { error, missing_data } = &f.s.state {
            assert!(reset_code(error) == Some(f.code));
            assert!(missing_data.start == f.ms && missing_data.end == f.me);
        }
        assert!(f.s.on_transmit(sid, &mut ctx).is_ok());
        // RFC 9000 3.5: no STOP_SENDING for a stream the peer has reset
        assert!(ctx.frames_written == (kind == STOPPING) as usize);
    } else if kind == DATA_READ || (known && c.start == c.fin) {
        // everything was received: there is nothing the peer could stop
        kani::cover!(kind == RECEIVING, "stop after all data was received");
        assert!(status == Some(ops::Status::Finished));
        assert!(f.s.state == ReceiveStreamState::DataRead);
        assert!(f.s.final_state_observed);
        assert!(f.s.on_transmit(sid, &mut ctx).is_ok());
        assert!(ctx.frames_written == 0);
    } else {
        kani::cover!(known, "stop in Size Known");
        kani::cover!(!known, "stop in Recv");
        assert!(matches!(status, Some(ops::Status::Reset(e)) if reset_code(&e) == Some(code.as_u64())));
        // buffered data is dropped: nothing is delivered afterwards (see C04-O4b for later frames)
        assert!(post == Cur { start: 0, max_recv: 0, fin: UNKNOWN });
        assert!(f.s.read_waiter.is_none() && f.s.detached);
        match &f.s.state {
            ReceiveStreamState::Stopping { error, missing_data } => {
                assert!(reset_code(error) == Some(code.as_u64()));
                // with an empty buffer everything received in order == everything consumed
                assert!(missing_data.start == c.start && missing_data.end == u64::MAX);
            }
            _ => assert!(false),
        }
        // STOP_SENDING with the application's code goes out
        assert!(f.s.on_transmit(sid, &mut ctx).is_ok());
        assert!(ctx.frames_written == 1);
        let fr = &ctx.last_frame[..ctx.last_frame_len];
        assert!(fr[0] == 0x05 && fr[1] == 0x04);
        assert!(ref_varint(&fr[2..]) == Some((code.as_u64(), fr.len() - 2)));
    }
    core::mem::forget(f);
}

// ---------------------------------------------------------------------------------------------
// C04-O4e: what the receive half puts on the wire, in every state: MAX_STREAM_DATA carries exactly
// consumed + window and is sent only while the final size is open (RFC 9000 3.2, 4.1);
// STOP_SENDING only while stopping; an acknowledged frame is not repeated, a lost one is - unless a
// RESET_STREAM arrived in between.
#[cfg_attr(kani, kani::proof)]
#[cfg_attr(kani, kani::unwind(9))]
#[cfg_attr(kani, kani::stub(core::panic::Location::caller, StubLoc::caller))]
fn verif_rx_transmit_sync() {
    validate_layout();
    let kind = any_kind();
    let mut f = any_stream(kind);
    let b = f.b;
    let known = f.c.fin != UNKNOWN;
    let sid = StreamId::from_varint(VarInt::from_u8(4));
    let credit_open = (kind == RECEIVING && !known) || kind == STOPPING;
    // an update is due when it exceeds what the peer acknowledged by a tenth of the window
    let significant = b.adv() != f.ackd && b.adv() - f.ackd >= (b.s_window / 10) as u64;
    let want_stop = kind == STOPPING;
    let want_msd = credit_open && significant;
    let mut ctx = StubCtx::new(24);
    assert!(f.s.on_transmit(sid, &mut ctx).is_ok());
    assert!(ctx.frames_written == want_stop as usize + want_msd as usize);
    let check_last = |ctx: &StubCtx| {
        let fr = &ctx.last_frame[..ctx.last_frame_len];
        if want_msd {
            // the advertised limit is consumed + window, never more
            assert!(fr[0] == 0x11 && fr[1] == 0x04);
            assert!(ref_varint(&fr[2..]) == Some((b.adv(), fr.len() - 2)));
            assert!(b.adv() - b.released <= b.s_window as u64);
        } else if want_stop {
            assert!(fr[0] == 0x05 && fr[1] == 0x04);
            assert!(ref_varint(&fr[2..]) == Some((f.code, fr.len() - 2)));
        }
    };
    check_last(&ctx);
    kani::cover!(want_msd && !want_stop, "MAX_STREAM_DATA sent");
    kani::cover!(kind == RECEIVING && known && significant, "no MAX_STREAM_DATA once the size is known");

    // the packet (number 7) is acknowledged or lost, or the report is about other packets
    let lo: u64 = kani::any();
    let hi: u64 = kani::any();
    kani::assume(lo <= hi && hi < 16);
    let set = PacketNumberRange::new(pn(lo), pn(hi));
    let hit = lo <= 7 && 7 <= hi;
    let ev: u8 = kani::any();
    kani::assume(ev < 3);
    let mut reset = false;
    match ev {
        0 => f.s.on_packet_ack(&set),
        1 => f.s.on_packet_loss(&set),
        _ => {
            // a RESET_STREAM (final size = everything received so far) arrives, then the loss
            let frame = ResetStream {
                stream_id: VarInt::from_u8(4),
                application_error_code: VarInt::from_u8(1),
                final_size: VarInt::new(b.acquired).unwrap(),
            };
            let mut events = StreamEvents::new();
            assert!(f.s.on_reset(&frame, &mut events).is_ok());
            reset = state_kind(&f.s) == RESET;
            f.s.on_packet_loss(&set);
            core::mem::forget(events);
        }
    }
    let mut ctx2 = StubCtx::new(24);
    assert!(f.s.on_transmit(sid, &mut ctx2).is_ok());
    if ev >= 1 && hit && !reset {
        kani::cover!(want_msd, "lost MAX_STREAM_DATA repeated");
        kani::cover!(want_stop, "lost STOP_SENDING repeated");
        assert!(ctx2.frames_written == ctx.frames_written);
        if ctx2.frames_written > 0 {
            check_last(&ctx2);
        }
    } else {
        kani::cover!(ev == 2 && hit && (want_msd || want_stop) && reset, "nothing is repeated after a RESET_STREAM");
        kani::cover!(ev == 0 && hit && want_stop, "acknowledged STOP_SENDING is not repeated");
        assert!(ctx2.frames_written == 0);
    }
    core::mem::forget(f);
}

// ---- generated by tools/fixup.py: native replay entry ----
#[cfg(not(kani))]
#[test]
fn verif_replay() {
    kani::replay(&[
        ("verif_rx_on_data_receiving", verif_rx_on_data_receiving),
        ("verif_rx_on_data_receiving_real_cursors", verif_rx_on_data_receiving_real_cursors),
        ("verif_rx_on_data_closed", verif_rx_on_data_closed),
        ("verif_rx_on_reset", verif_rx_on_reset),
        ("verif_rx_on_reset_below_received_finding_witness", verif_rx_on_reset_below_received_finding_witness),
        ("verif_rx_stop_sending", verif_rx_stop_sending),
        ("verif_rx_transmit_sync", verif_rx_transmit_sync),
    ]);
}
