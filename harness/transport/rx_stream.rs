// C04-O4*: ReceiveStream (the receive half of a stream, RFC 9000 3.2 / 4.1 / 4.5) - one incoming
// STREAM / RESET_STREAM frame, one application stop, one transmission from an ARBITRARY valid
// stream state.  What is real: ReceiveStream::{on_data,on_reset,init_reset,poll_request (stop
// path),on_transmit,on_packet_ack,on_packet_loss}, ReceiveStreamFlowController, the connection
// flow controller shared with "another stream", the reassembler's cursor accessors / reset.
// What is cut: Reassembler::write_at / write_at_fin (the slot list is out of reach for CBMC, see
// harness/core/reassembler_cursors.rs) are replaced under Kani by a RECORDING stub that notes what
// it was handed and then behaves as the contract that C01-O2c/O2d decided for the real
// write_reader on a slot-free buffer (final-size rules, cursor update, nothing stored).
use super::super::*;
#[cfg(not(kani))]
use crate::kani;

const M: u64 = (1 << 62) - 1;
const UNKNOWN: u64 = u64::MAX;

fn vi(max: u64) -> VarInt {
    let v: u64 = kani::any();
    kani::assume(v <= max);
    VarInt::new(v).unwrap()
}

// ---------------------------------------------------------------------------------------------
// The reassembler's cursors are private to s2n-quic-core and cannot be driven to an arbitrary
// value through its API without the slot list.  They are reached through the object
// representation instead: Reassembler = { VecDeque<Slot> (4 words), Cursors { start_offset,
// max_recv_offset, final_offset } (3 words) }.  Where the three words lie is FOUND (a fresh
// reassembler holds (0, 0, u64::MAX)) and every write is VALIDATED through the public accessors,
// so a different layout fails the harness instead of silently testing something else.
#[derive(Clone, Copy, PartialEq, Debug)]
struct Cur {
    start: u64,
    max_recv: u64,
    fin: u64,
}

const _: () = assert!(core::mem::size_of::<Reassembler>() == 7 * 8);

fn cursor_word(r: &Reassembler) -> usize {
    let p = r as *const Reassembler as *const u64;
    // the word holding final_offset of a reassembler whose final size is unknown
    debug_assert!(r.final_size().is_none());
    unsafe {
        if p.add(6).read() == UNKNOWN {
            4
        } else {
            assert!(p.add(2).read() == UNKNOWN);
            0
        }
    }
}

fn get_cursors(r: &Reassembler, w: usize) -> Cur {
    let p = r as *const Reassembler as *const u64;
    unsafe { Cur { start: p.add(w).read(), max_recv: p.add(w + 1).read(), fin: p.add(w + 2).read() } }
}

fn set_cursors(r: &mut Reassembler, w: usize, c: Cur) {
    let p = r as *mut Reassembler as *mut u64;
    unsafe {
        p.add(w).write(c.start);
        p.add(w + 1).write(c.max_recv);
        p.add(w + 2).write(c.fin);
    }
    // validation: first and last word are what the accessors report; the word in between
    // is then the remaining field of the 3-word Cursors struct
    assert!(r.consumed_len() == c.start);
    assert!(r.final_size() == if c.fin == UNKNOWN { None } else { Some(c.fin) });
    assert!(r.is_empty());
}

/// natively: the middle word really is max_recv_offset (a FIN below it is refused, at it accepted)
#[cfg(not(kani))]
fn validate_layout() {
    let mut r = Reassembler::new();
    let w = cursor_word(&r);
    set_cursors(&mut r, w, Cur { start: 3, max_recv: 10, fin: UNKNOWN });
    assert!(r.write_at_fin(VarInt::from_u8(9), &[]).is_err());
    assert!(r.final_size().is_none());
    assert!(r.write_at_fin(VarInt::from_u8(10), &[]).is_ok());
    assert!(r.final_size() == Some(10));
}
#[cfg(kani)]
fn validate_layout() {}

// ---------------------------------------------------------------------------------------------
// recording stub for the buffer write
#[cfg(kani)]
static mut WR_CALLS: u32 = 0;
#[cfg(kani)]
static mut WR_OFF: u64 = 0;
#[cfg(kani)]
static mut WR_LEN: usize = 0;
#[cfg(kani)]
static mut WR_FIN: bool = false;
#[cfg(kani)]
static mut WR_PTR: usize = 0;
#[cfg(kani)]
static mut WR_WORD: usize = 0;

#[cfg(kani)]
fn record_write(this: &mut Reassembler, offset: VarInt, data: &[u8], is_fin: bool) -> Result<(), buffer::Error> {
    unsafe {
        WR_CALLS += 1;
        WR_OFF = offset.as_u64();
        WR_LEN = data.len();
        WR_FIN = is_fin;
        WR_PTR = data.as_ptr() as usize;
    }
    let w = unsafe { WR_WORD };
    let c = get_cursors(this, w);
    // precondition the caller must have established (Request::new would refuse with OutOfRange)
    let end = offset.as_u64() + data.len() as u64;
    assert!(end <= M);
    // contract of the real write_reader on a buffer without slots (C01-O2c / C01-O2d)
    let known = c.fin != UNKNOWN;
    let reject = if is_fin {
        if known {
            end != c.fin
        } else {
            end < c.max_recv
        }
    } else {
        known && end > c.fin
    };
    if reject {
        return Err(buffer::Error::InvalidFin);
    }
    let p = this as *mut Reassembler as *mut u64;
    unsafe {
        p.add(w + 1).write(if end > c.max_recv { end } else { c.max_recv });
        if is_fin {
            p.add(w + 2).write(end);
        }
    }
    Ok(())
}

#[cfg(kani)]
fn stub_write_at(this: &mut Reassembler, offset: VarInt, data: &[u8]) -> Result<(), buffer::Error> {
    record_write(this, offset, data, false)
}

#[cfg(kani)]
fn stub_write_at_fin(this: &mut Reassembler, offset: VarInt, data: &[u8]) -> Result<(), buffer::Error> {
    record_write(this, offset, data, true)
}

// ---------------------------------------------------------------------------------------------
// state builder

/// books of one receive stream and of the connection it shares with other streams
#[derive(Clone, Copy)]
struct Books {
    s_window: u32,
    /// consumed by the application and released
    released: u64,
    /// highest offset charged to the stream and to the connection
    acquired: u64,
    conn_window: u32,
    /// connection bytes consumed (over all streams) before the step
    conn_consumed: u64,
    /// connection bytes charged (over all streams) before the step
    conn_acquired: u64,
}

impl Books {
    /// largest MAX_STREAM_DATA the endpoint has made available (RFC 9000 4.1: consumed + window)
    fn adv(&self) -> u64 {
        (self.released + self.s_window as u64).min(M)
    }
    fn conn_remaining(&self) -> u64 {
        self.conn_consumed + self.conn_window as u64 - self.conn_acquired
    }
}

/// A stream in the Receiving state at an arbitrary point of its life, the connection window being
/// shared with other streams that hold `other` unconsumed bytes.
fn any_receiving() -> (ReceiveStream, IncomingConnectionFlowController, Books, Cur, usize) {
    let conn_window: u32 = kani::any();
    let s_window: u32 = kani::any();
    let conn_init = vi(M);
    let s_init = vi(M);
    kani::assume(conn_init.as_u64() <= conn_window as u64 && s_init.as_u64() <= s_window as u64);
    let mut conn = IncomingConnectionFlowController::new(conn_init, conn_window);
    let mut s = ReceiveStream::new(false, conn.clone(), s_init, s_window);

    // stream books: released <= acquired <= released + window
    let released = vi(M);
    let acquired = vi(M);
    kani::assume(released <= acquired && acquired.as_u64() <= (released.as_u64() + s_window as u64).min(M));
    s.flow_controller.released_connection_window = released;
    s.flow_controller.acquired_connection_window = acquired;
    let adv = VarInt::new((released.as_u64() + s_window as u64).min(M)).unwrap();
    // what release_window leaves behind: latest value = released + window; the peer has seen some
    // value between the initial grant and that
    let ackd = vi(M);
    kani::assume(ackd <= adv);
    s.flow_controller.read_window_sync = IncrementalValueSync::new(adv, ackd, VarInt::from_u32(s_window / 10));

    // connection books, reached through the API: k bytes consumed earlier, then the unconsumed
    // bytes of this stream and of the others are charged
    let k: u32 = kani::any();
    let other: u32 = kani::any();
    let unreleased = acquired.as_u64() - released.as_u64();
    kani::assume(k <= conn_window && other as u64 + unreleased <= conn_window as u64);
    if k > 0 {
        assert!(conn.acquire_window(VarInt::from_u32(k)).is_ok());
        conn.release_window(VarInt::from_u32(k));
    }
    let out = VarInt::new(other as u64 + unreleased).unwrap();
    assert!(conn.acquire_window(out).is_ok());
    let b = Books {
        s_window,
        released: released.as_u64(),
        acquired: acquired.as_u64(),
        conn_window,
        conn_consumed: k as u64,
        conn_acquired: k as u64 + out.as_u64(),
    };
    assert!(conn.acquired_window().as_u64() == b.conn_acquired);

    // buffer cursors: everything consumed was released; the highest offset seen was charged; a
    // known final size was charged in full (on_data acquires up to the end of the FIN frame)
    let max_recv: u64 = kani::any();
    let fin_known: bool = kani::any();
    kani::assume(b.released <= max_recv && max_recv <= b.acquired);
    let c = Cur { start: b.released, max_recv, fin: if fin_known { b.acquired } else { UNKNOWN } };
    let w = cursor_word(&s.receive_buffer);
    set_cursors(&mut s.receive_buffer, w, c);
    if fin_known {
        // Size Known: MAX_STREAM_DATA is no longer synchronised
        s.flow_controller.stop_sync();
    }
    (s, conn, b, c, w)
}

/// observes the connection's remaining credit (consumed + window - acquired) from outside
fn conn_remaining_is(conn: &IncomingConnectionFlowController, expected: u64) -> bool {
    let probe = vi(M);
    let mut c = conn.clone();
    let before = c.acquired_window();
    let ok = c.acquire_window(probe).is_ok();
    if ok {
        // undo is not offered by the API: the probe is the last thing done with the controller
        let _ = before;
    }
    ok == (probe.as_u64() <= expected)
}

fn is_code(e: &transport::Error, c: transport::Error) -> bool {
    e.code == c.code
}

// ---------------------------------------------------------------------------------------------
// C04-O4a: one STREAM frame on a stream in the Receiving state (Recv / Size Known of RFC 9000 3.2)
#[cfg_attr(kani, kani::proof)]
#[cfg_attr(kani, kani::unwind(6))]
#[cfg_attr(kani, kani::stub(Reassembler::write_at, stub_write_at))]
#[cfg_attr(kani, kani::stub(Reassembler::write_at_fin, stub_write_at_fin))]
fn verif_rx_on_data_receiving() {
    validate_layout();
    let (mut s, conn, b, c, w) = any_receiving();
    #[cfg(kani)]
    unsafe {
        WR_WORD = w;
        WR_CALLS = 0;
    }
    let off = vi(M);
    let len: usize = kani::any();
    kani::assume(len <= 4);
    let is_fin: bool = kani::any();
    let payload: [u8; 4] = kani::any();
    let frame = StreamRef {
        stream_id: VarInt::from_u8(4),
        offset: off,
        is_last_frame: kani::any(),
        is_fin,
        data: &payload[..len],
    };
    let mut events = StreamEvents::new();
    let r = s.on_data(&frame, &mut events);

    // ---- oracle (RFC 9000 4.1, 4.5, 19.8) ----
    let end = off.as_u64() as u128 + len as u128;
    let known = c.fin != UNKNOWN;
    let overflow = end > M as u128;
    let end = end as u64;
    // flow control is applied while the final size is open; afterwards every byte up to the final
    // size has been accounted and data beyond it is a final-size violation
    let additional = end.saturating_sub(b.acquired);
    let over_stream = !known && end > b.adv();
    let over_conn = !known && additional > b.conn_remaining();
    let fin_violation = if is_fin {
        if known {
            end != c.fin
        } else {
            end < c.max_recv
        }
    } else {
        known && end > c.fin
    };
    let post = get_cursors(&s.receive_buffer, w);
    #[cfg(kani)]
    let calls = unsafe { WR_CALLS };

    if overflow || over_stream || over_conn {
        kani::cover!(overflow, "offset + length beyond 2^62-1");
        kani::cover!(!overflow && over_stream && !over_conn, "beyond the stream limit only");
        kani::cover!(!overflow && !over_stream && over_conn, "beyond the connection limit only");
        kani::cover!(!overflow && over_stream && end == b.adv() + 1, "one byte beyond the stream limit");
        assert!(matches!(&r, Err(e) if is_code(e, transport::Error::FLOW_CONTROL_ERROR)));
        // the offending data never reaches the buffer and is not accounted
        #[cfg(kani)]
        assert!(calls == 0);
        assert!(post == c);
        assert!(s.flow_controller.acquired_connection_window.as_u64() == b.acquired);
        assert!(s.flow_controller.released_connection_window.as_u64() == b.released);
        assert!(conn.acquired_window().as_u64() == b.conn_acquired);
        assert!(s.state == ReceiveStreamState::Receiving);
    } else if fin_violation {
        kani::cover!(is_fin && known, "second FIN with a different final size");
        kani::cover!(is_fin && !known, "FIN below data already received");
        kani::cover!(!is_fin, "data beyond the known final size");
        assert!(matches!(&r, Err(e) if is_code(e, transport::Error::FINAL_SIZE_ERROR)));
        // nothing is stored, the final size does not change
        assert!(post == c);
        assert!(s.state == ReceiveStreamState::Receiving);
        assert!(s.flow_controller.released_connection_window.as_u64() == b.released);
    } else {
        kani::cover!(!known && end == b.adv() && additional > 0, "new data up to exactly the stream limit");
        kani::cover!(!known && additional == b.conn_remaining() && additional > 0, "new data up to exactly the connection limit");
        kani::cover!(known && !is_fin, "retransmission after the final size is known");
        kani::cover!(is_fin && !known && len == 0, "empty FIN frame");
        assert!(r.is_ok());
        // the frame reaches the buffer exactly once, unmodified
        #[cfg(kani)]
        unsafe {
            assert!(calls == 1);
            assert!(WR_OFF == off.as_u64() && WR_LEN == len && WR_FIN == is_fin);
            assert!(WR_PTR == payload.as_ptr() as usize);
        }
        // every new byte is charged once to the stream and once to the connection
        let acq1 = if known { b.acquired } else { b.acquired + additional };
        assert!(s.flow_controller.acquired_connection_window.as_u64() == acq1);
        assert!(conn.acquired_window().as_u64() == b.conn_acquired + (acq1 - b.acquired));
        assert!(s.flow_controller.released_connection_window.as_u64() == b.released);
        let fin1 = if is_fin { end } else { c.fin };
        if is_fin && end == c.start {
            // FIN of a stream whose data was all consumed already: Data Read
            kani::cover!(true, "FIN completes a fully consumed stream");
            assert!(s.state == ReceiveStreamState::DataRead);
            assert!(post == Cur { start: 0, max_recv: 0, fin: UNKNOWN });
        } else {
            assert!(s.state == ReceiveStreamState::Receiving);
            assert!(post.start == c.start && post.fin == fin1);
            assert!(post.max_recv == c.max_recv.max(end));
            // invariant of the Receiving state, re-established
            assert!(post.max_recv <= acq1 && (fin1 == UNKNOWN || fin1 == acq1));
        }
        if fin1 != UNKNOWN {
            // Size Known: no further MAX_STREAM_DATA (RFC 9000 3.2)
            assert!(s.flow_controller.read_window_sync.is_cancelled());
            assert!(!s.flow_controller.read_window_sync.has_transmission_interest());
        }
    }
    // the advertised stream limit never moves on incoming data
    assert!(s.flow_controller.read_window_sync.latest_value().as_u64() == b.adv());
    core::mem::forget(events);
    core::mem::forget(s);
    core::mem::forget(conn);
}

// ---- generated by tools/fixup.py: native replay entry ----
#[cfg(not(kani))]
#[test]
fn verif_replay() {
    kani::replay(&[
        ("verif_rx_on_data_receiving", verif_rx_on_data_receiving),
    ]);
}
