// C13-O2*: LocalIdRegistry, one operation from an ARBITRARY valid registry state.
//
// Shape: the number of registered IDs is concrete per harness (1..3 entries, inline SmallVec); every
// field of every entry (ID bytes 4..5, sequence number, retirement time, status + payload, reset
// token), next_sequence_number, retire_prior_to, the peer's limit (1..3) and the memo caches
// (cold / warm) are symbolic.
//
// Representation invariant INV (assumed on the pre-state, re-asserted on every post-state):
//   I1 sequence numbers strictly increase in registration order and are < next_sequence_number
//   I2 retire_prior_to <= next_sequence_number
//   I3 #IDs counting towards the limit (not retired) <= active_connection_id_limit   (<= 3)
//   I4 an ID retired by the endpoint itself (PendingRetirementConfirmation) has seq < retire_prior_to
//      (= the peer has been / will be asked to retire it)
//   I5 an ID whose NEW_CONNECTION_ID is still to be (re)sent or in flight
//      (PendingIssuance / PendingReissue / PendingAcknowledgement) has seq >= retire_prior_to
//      (= a frame issuing it never asks to retire beyond itself, RFC 9000 19.15)
//      and is not the handshake ID (sequence number 0 starts Active)
//   I6 IDs pairwise distinct
//   I7 retirement times do not decrease with the sequence number among the IDs issued by
//      register_connection_id (seq >= 1): if a later ID has a retirement time, every earlier one has
//      one that is not later.  (expiration = now + Format::lifetime(); holds for a constant lifetime)
//
// Cut (Kani stubs, see each obligation): the endpoint-wide Arc<Mutex<ConnectionIdMapperState>> hash
// maps. LocalIdMap::try_insert / LocalIdMap::remove are replaced by recording stubs; the real Mutex
// and the real (empty) hash maps are still constructed by ConnectionIdMapper::new.
// The native replay has no stubs: there the real map is populated with the registered IDs and the
// map content is inspected instead of the recordings.
use super::*;
#[cfg(not(kani))]
use crate::kani;
use crate::connection::{
    connection_id_mapper::{ConnectionIdMapper, LocalIdMap},
    InternalConnectionIdGenerator,
};
use s2n_quic_core::{
    endpoint,
    packet::number::PacketNumberSpace,
    random,
    time::{Clock as _, NoopClock},
    varint::VarInt,
};

#[path = "/verif/harness/transport/cid_support.rs"]
mod cid_support;
use cid_support::*;

const MAXN: usize = 4;
/// concrete ID lengths of the registered entries (LocalId::MIN_LEN = 4)
const ID_LEN: [usize; MAXN] = [4, 5, 4, 5];

// ---------------------------------------------------------------- time
// Symbolic Timestamp arithmetic is what makes these harnesses blow up (measured: on_timeout with
// 16-bit symbolic microsecond offsets and a symbolic `now`: 64 M clauses, solver out of memory at
// 16 GB).  The registry only ever compares times against `now` (+1 ms timer granularity) and adds
// constants to `now`, so: `now` is the fixed instant T0+30 ms and every other time is a SYMBOLIC
// CHOICE among the concrete grid below (long elapsed / elapsed only thanks to the 1 ms granularity /
// just not elapsed / far ahead).
const NOW_US: u64 = 30_000;
const GRID_US: [u64; 4] = [0, 30_999, 31_000, 60_000];
// (compile-time constants: a run-time Duration::from_secs came back with nondeterministic
// nanoseconds under Kani 0.68 in this crate)
const D40: Duration = Duration::from_secs(40);
const D30: Duration = Duration::from_secs(30);
fn t_us(us: u64) -> Timestamp {
    NoopClock.get_time() + D40 + Duration::from_micros(us)
}
fn now() -> Timestamp {
    t_us(NOW_US)
}
/// grid point -> Timestamp (an if-then-else over four values computed once per harness)
#[derive(Clone, Copy)]
struct Grid([Timestamp; 4]);
impl Grid {
    fn new() -> Grid {
        Grid([t_us(GRID_US[0]), t_us(GRID_US[1]), t_us(GRID_US[2]), t_us(GRID_US[3])])
    }
    fn at(&self, g: u8) -> Timestamp {
        match g {
            0 => self.0[0],
            1 => self.0[1],
            2 => self.0[2],
            _ => self.0[3],
        }
    }
}
fn any_grid() -> u8 {
    let g: u8 = kani::any();
    kani::assume(g < 4);
    g
}
/// Timestamp::has_elapsed(now): deadline < now + 1 ms
fn elapsed(g: u8) -> bool {
    GRID_US[g as usize] < NOW_US + 1000
}
fn pn(v: u8) -> PacketNumber {
    PacketNumberSpace::ApplicationData.new_packet_number(VarInt::from_u8(v))
}

// ---------------------------------------------------------------- model of one registered ID
const S_ISSUE: u8 = 0; // PendingIssuance
const S_REISSUE: u8 = 1; // PendingReissue
const S_ACK: u8 = 2; // PendingAcknowledgement(pn)
const S_ACTIVE: u8 = 3; // Active
const S_RETIRING: u8 = 4; // PendingRetirementConfirmation(Option<removal time>)
const S_REMOVAL: u8 = 5; // PendingRemoval(removal time)

#[derive(Clone, Copy)]
struct E {
    idb: [u8; 5],
    idl: usize,
    id: connection::LocalId,
    seq: u32,
    rt: Option<u8>,
    rt_ts: Option<Timestamp>,
    st: u8,
    pnv: u8,
    tm: Option<u8>,
    tm_ts: Option<Timestamp>,
    tok: [u8; 16],
}

impl E {
    /// `idl`: concrete ID length (a symbolic length makes every copy/compare of the ID a
    /// symbolic-size memcpy/memcmp)
    fn any(idl: usize, grid: &Grid) -> E {
        // (arrays are drawn through integers: no loops, the unwind bound stays small)
        let idw: u64 = kani::any();
        let w = idw.to_le_bytes();
        let idb: [u8; 5] = [w[0], w[1], w[2], w[3], w[4]];
        let seq: u32 = kani::any();
        let has_rt: bool = kani::any();
        let rt = any_grid();
        let st: u8 = kani::any();
        kani::assume(st <= S_REMOVAL);
        let pnv: u8 = kani::any();
        let has_tm: bool = kani::any();
        let tm = any_grid();
        kani::assume(st != S_REMOVAL || has_tm);
        let tokw: u128 = kani::any();
        let tok: [u8; 16] = tokw.to_le_bytes();
        E {
            idb,
            idl,
            id: connection::LocalId::try_from_bytes(&idb[..idl]).unwrap(),
            seq,
            rt: if has_rt { Some(rt) } else { None },
            rt_ts: if has_rt { Some(grid.at(rt)) } else { None },
            st,
            pnv,
            tm: if has_tm { Some(tm) } else { None },
            tm_ts: if has_tm { Some(grid.at(tm)) } else { None },
            tok,
        }
    }
    fn id(&self) -> connection::LocalId {
        self.id
    }
    fn status(&self) -> LocalIdStatus {
        match self.st {
            S_ISSUE => PendingIssuance,
            S_REISSUE => PendingReissue,
            S_ACK => PendingAcknowledgement(pn(self.pnv)),
            S_ACTIVE => Active,
            S_RETIRING => PendingRetirementConfirmation(self.tm_ts),
            _ => PendingRemoval(self.tm_ts.unwrap()),
        }
    }
    fn info(&self) -> LocalIdInfo {
        LocalIdInfo {
            id: self.id(),
            sequence_number: self.seq,
            retirement_time: self.rt_ts,
            stateless_reset_token: stateless_reset::Token::from(self.tok),
            status: self.status(),
        }
    }
    fn counts(&self) -> bool {
        self.st <= S_ACTIVE
    }
    fn same_id(&self, o: &E) -> bool {
        if self.idl != o.idl {
            return false;
        }
        let mut eq = true;
        let mut i = 0;
        while i < 5 {
            if i < self.idl && self.idb[i] != o.idb[i] {
                eq = false;
            }
            i += 1;
        }
        eq
    }
}

struct Pre {
    n: usize,
    e: [E; MAXN],
    next: u32,
    rpt: u32,
    limit: u8,
    warm: bool,
}

impl Pre {
    fn active(&self) -> u8 {
        let mut c = 0;
        let mut i = 0;
        while i < self.n {
            if self.e[i].counts() {
                c += 1;
            }
            i += 1;
        }
        c
    }

    /// INV on the model
    fn valid(&self) -> bool {
        let mut ok = self.limit >= 1 && self.limit <= 3 && self.rpt <= self.next;
        let mut i = 0;
        while i < self.n {
            let e = &self.e[i];
            ok &= e.seq < self.next;
            if i > 0 {
                ok &= self.e[i - 1].seq < e.seq;
            }
            if e.st == S_RETIRING {
                ok &= e.seq < self.rpt;
            }
            if e.st <= S_ACK {
                ok &= e.seq >= self.rpt && e.seq != 0;
            }
            let mut j = i + 1;
            while j < self.n {
                let l = &self.e[j];
                ok &= !e.same_id(l);
                if e.seq != 0 {
                    if let Some(lrt) = l.rt {
                        ok &= match e.rt {
                            Some(ert) => ert <= lrt,
                            None => false,
                        };
                    }
                }
                j += 1;
            }
            i += 1;
        }
        ok && self.active() <= self.limit
    }
}

// ---------------------------------------------------------------- mapper stubs (Kani only)
#[cfg(kani)]
static mut MAP_FREE: bool = true;
#[cfg(kani)]
static mut MAP_INSERTS: usize = 0;
#[cfg(kani)]
static mut MAP_INSERTED: Option<(connection::LocalId, InternalConnectionId)> = None;
#[cfg(kani)]
static mut MAP_REMOVES: usize = 0;
#[cfg(kani)]
static mut MAP_REMOVED: [Option<connection::LocalId>; MAXN] = [None; MAXN];

#[cfg(kani)]
fn stub_try_insert(_this: &mut LocalIdMap, local_id: &connection::LocalId, internal_id: InternalConnectionId) -> Result<(), ()> {
    unsafe {
        MAP_INSERTS += 1;
        MAP_INSERTED = Some((*local_id, internal_id));
        if MAP_FREE {
            Ok(())
        } else {
            Err(())
        }
    }
}

#[cfg(kani)]
fn stub_remove(_this: &mut LocalIdMap, local_id: &connection::LocalId) -> Option<InternalConnectionId> {
    unsafe {
        assert!(MAP_REMOVES < MAXN);
        MAP_REMOVED[MAP_REMOVES] = Some(*local_id);
        MAP_REMOVES += 1;
    }
    // "was stored in the mapper" (the caller debug-asserts it)
    Some(InternalConnectionIdGenerator::new().generate_id())
}

#[cfg(kani)]
static mut UNREGISTER_CALLS: usize = 0;
#[cfg(kani)]
static mut UNREGISTER_AT: Option<Timestamp> = None;
#[cfg(kani)]
static mut UNREGISTER_SAW_RPT: u32 = 0;

/// recording stub for the private LocalIdRegistry::unregister_expired_ids (SmallVec::retain with a
/// symbolic set of deletions is out of reach together with the rest of on_timeout)
#[cfg(kani)]
fn stub_unregister_expired_ids(this: &mut LocalIdRegistry, timestamp: Timestamp) {
    unsafe {
        UNREGISTER_CALLS += 1;
        UNREGISTER_AT = Some(timestamp);
        UNREGISTER_SAW_RPT = this.retire_prior_to;
    }
}

#[cfg(kani)]
fn reset_recordings() {
    unsafe {
        UNREGISTER_CALLS = 0;
        UNREGISTER_AT = None;
        MAP_INSERTS = 0;
        MAP_INSERTED = None;
        MAP_REMOVES = 0;
        MAP_REMOVED = [None; MAXN];
    }
}

// ---------------------------------------------------------------- registry builder
// Under Kani the endpoint-wide mapper state cannot be constructed at all (ConnectionIdMapper::new
// alone: CBMC out of memory at 16 GB, measured twice). Every access to it made by LocalIdRegistry is
// one of the two stubbed LocalIdMap methods, which never look at `self`: the state behind the REAL
// Arc<Mutex<..>> is therefore left uninitialised under Kani. Natively the real mapper is built.
#[cfg(kani)]
fn new_registry(rotate: bool) -> LocalIdRegistry {
    let state = Arc::new(Mutex::new(core::mem::MaybeUninit::<ConnectionIdMapperState>::uninit()));
    let state: Arc<Mutex<ConnectionIdMapperState>> =
        unsafe { Arc::from_raw(Arc::into_raw(state) as *const Mutex<ConnectionIdMapperState>) };
    let iid = InternalConnectionIdGenerator::new().generate_id();
    let hs = connection::LocalId::try_from_bytes(&[0xAA; 8]).unwrap();
    LocalIdRegistry::new(iid, state, &hs, None, stateless_reset::Token::from([0xAB; 16]), rotate)
}
#[cfg(not(kani))]
fn new_registry(rotate: bool) -> LocalIdRegistry {
    let mut rng = random::testing::Generator(123);
    let mut mapper = ConnectionIdMapper::new(&mut rng, endpoint::Type::Server);
    let iid = InternalConnectionIdGenerator::new().generate_id();
    // placeholder handshake ID (8 bytes: cannot collide with the 4..5 byte symbolic IDs)
    let hs = connection::LocalId::try_from_bytes(&[0xAA; 8]).unwrap();
    mapper.create_local_id_registry(iid, &hs, None, stateless_reset::Token::from([0xAB; 16]), rotate)
}

fn any_registry(n: usize) -> (LocalIdRegistry, Pre) {
    let grid = Grid::new();
    let first = E::any(ID_LEN[0], &grid);
    let mut es = [first; MAXN];
    let mut i = 1;
    while i < n {
        es[i] = E::any(ID_LEN[i], &grid);
        i += 1;
    }
    let next: u32 = kani::any();
    let rpt: u32 = kani::any();
    let limit: u8 = kani::any();
    let rotate: bool = kani::any();
    let warm: bool = kani::any();
    let pre = Pre { n, e: es, next, rpt, limit, warm };
    kani::assume(pre.valid());

    let mut reg = new_registry(rotate);

    // the SmallVec is built in one piece with a concrete length: building it with push() leaves CBMC
    // with a symbolic container shape (measured: 39 M clauses for on_timeout on 2 entries vs 2 M on 1)
    let buf: [LocalIdInfo; 5] = [
        pre.e[0].info(),
        pre.e[if n > 1 { 1 } else { 0 }].info(),
        pre.e[if n > 2 { 2 } else { 0 }].info(),
        pre.e[if n > 3 { 3 } else { 0 }].info(),
        pre.e[0].info(),
    ];
    core::mem::forget(core::mem::replace(&mut reg.registered_ids, SmallVec::from_buf_and_len(buf, n)));
    reg.next_sequence_number = next;
    reg.retire_prior_to = rpt;
    reg.active_connection_id_limit = limit;
    reg.next_expiration.clear();
    reg.ack_interest.clear();
    reg.transmission_interest.clear();
    reg.active_id_count.clear();
    if warm {
        // caches filled: a missing clear() in the operation under test becomes visible
        let _ = reg.next_expiration.get(&reg.registered_ids);
        let _ = reg.ack_interest.get(&reg.registered_ids);
        let _ = reg.transmission_interest.get(&reg.registered_ids);
        let _ = reg.active_id_count.get(&reg.registered_ids);
    }
    #[cfg(not(kani))]
    {
        let mut guard = reg.state.lock().unwrap();
        let mut i = 0;
        while i < n {
            guard.local_id_map.try_insert(&pre.e[i].id(), reg.internal_id).unwrap();
            i += 1;
        }
    }
    #[cfg(kani)]
    reset_recordings();
    (reg, pre)
}

/// INV on the real registry
fn assert_inv(reg: &LocalIdRegistry) {
    assert!(reg.retire_prior_to <= reg.next_sequence_number);
    let mut active = 0u8;
    let mut prev: Option<u32> = None;
    for info in reg.registered_ids.iter() {
        assert!(info.sequence_number < reg.next_sequence_number);
        if let Some(p) = prev {
            assert!(p < info.sequence_number);
        }
        prev = Some(info.sequence_number);
        match info.status {
            PendingRetirementConfirmation(_) => assert!(info.sequence_number < reg.retire_prior_to),
            PendingIssuance | PendingReissue | PendingAcknowledgement(_) => {
                assert!(info.sequence_number >= reg.retire_prior_to);
                assert!(info.sequence_number != 0);
            }
            _ => {}
        }
        if !matches!(info.status, PendingRetirementConfirmation(_) | PendingRemoval(_)) {
            active += 1;
        }
    }
    assert!(active <= reg.active_connection_id_limit);
}

fn unchanged(info: &LocalIdInfo, e: &E) -> bool {
    info.sequence_number == e.seq && info.id == e.id() && info.status == e.status() && info.retirement_time == e.rt_ts
}

// ================================================================ C13-O2b: on_timeout
fn timeout_body(n: usize) {
    let (mut reg, pre) = any_registry(n);
    let now = now();

    reg.on_timeout(now);

    // ---- oracle
    let mut fired = false;
    let mut i = 0;
    while i < n {
        let e = &pre.e[i];
        let change = match e.st {
            S_REMOVAL => e.tm,
            S_RETIRING => match e.tm {
                Some(t) => Some(t),
                None => e.rt,
            },
            _ => e.rt,
        };
        if let Some(t) = change {
            fired |= elapsed(t);
        }
        i += 1;
    }
    let mut want_rpt = pre.rpt;
    let mut k = 0; // index into the surviving entries
    let mut removed = 0;
    let mut newly_retired = 0;
    let mut i = 0;
    while i < n {
        let e = &pre.e[i];
        let ready = fired && e.st <= S_ACTIVE && matches!(e.rt, Some(t) if elapsed(t));
        // (under Kani the removal of expired IDs is cut away by the stub: see C13-O2c for it)
        let expired = !cfg!(kani) && fired && e.st >= S_RETIRING && matches!(e.tm, Some(t) if elapsed(t));
        if expired {
            // unregistered from the endpoint-wide map
            #[cfg(kani)]
            unsafe {
                assert!(MAP_REMOVES > removed);
                assert!(MAP_REMOVED[removed] == Some(e.id()));
            }
            #[cfg(not(kani))]
            assert!(reg.state.lock().unwrap().local_id_map.get(&e.id()).is_none());
            removed += 1;
        } else {
            assert!(reg.registered_ids.len() > k);
            let info = &reg.registered_ids[k];
            if ready {
                // retired by timeout: the peer is asked to retire it (retire_prior_to covers it) and
                // it stays routable for another EXPIRATION_BUFFER
                assert!(info.sequence_number == e.seq && info.id == e.id());
                assert!(info.status == PendingRetirementConfirmation(Some(now + D30)));
                assert!(reg.retire_prior_to > e.seq);
                if want_rpt < e.seq + 1 {
                    want_rpt = e.seq + 1;
                }
                newly_retired += 1;
                kani::cover!(e.st <= S_REISSUE, "an ID whose NEW_CONNECTION_ID is still unsent retires by timeout");
            } else {
                assert!(unchanged(info, e));
            }
            // still routed to this connection
            #[cfg(not(kani))]
            assert!(reg.state.lock().unwrap().local_id_map.get(&e.id()) == Some(reg.internal_id));
            k += 1;
        }
        i += 1;
    }
    assert!(reg.registered_ids.len() == k);
    #[cfg(kani)]
    unsafe {
        assert!(MAP_REMOVES == removed);
        // expired IDs are looked for exactly when the timer fired, at the current time, after the
        // retirements were applied
        assert!(UNREGISTER_CALLS == if fired { 1 } else { 0 });
        if fired {
            assert!(UNREGISTER_AT == Some(now) && UNREGISTER_SAW_RPT == want_rpt);
        }
    }
    // retire_prior_to moves exactly to one past the largest ID retired now: never beyond an issued ID
    assert!(reg.retire_prior_to == want_rpt);
    assert!(reg.next_sequence_number == pre.next);
    assert!(reg.active_connection_id_limit == pre.limit);
    kani::cover!(!fired, "timer not due: nothing changes");
    kani::cover!(newly_retired >= 1 && want_rpt > pre.rpt, "timeout retires an ID and raises retire_prior_to");
    kani::cover!(newly_retired == 2, "two IDs retire in one timeout");
    kani::cover!(removed >= 1, "an expired ID is unregistered");
    kani::cover!(removed >= 1 && newly_retired >= 1, "retire and removal in the same timeout");
    assert_inv(&reg);
    core::mem::forget(reg);
}

#[cfg_attr(kani, kani::proof)]
#[cfg_attr(kani, kani::unwind(6))]
#[cfg_attr(kani, kani::stub(LocalIdMap::try_insert, stub_try_insert))]
#[cfg_attr(kani, kani::stub(LocalIdMap::remove, stub_remove))]
#[cfg_attr(kani, kani::stub(LocalIdRegistry::unregister_expired_ids, stub_unregister_expired_ids))]
fn verif_local_id_timeout_n3() {
    timeout_body(3);
}


// ---- TEMP PROBES
#[cfg_attr(kani, kani::proof)]
#[cfg_attr(kani, kani::unwind(6))]
#[cfg_attr(kani, kani::stub(LocalIdMap::try_insert, stub_try_insert))]
#[cfg_attr(kani, kani::stub(LocalIdMap::remove, stub_remove))]
#[cfg_attr(kani, kani::stub(LocalIdRegistry::unregister_expired_ids, stub_unregister_expired_ids))]
fn verif_probe_registry_new() {
    let (reg, pre) = any_registry(2);
    kani::cover!(reg.registered_ids.len() == 2 && pre.rpt > 0, "ran");
    core::mem::forget(reg);
}

#[cfg_attr(kani, kani::proof)]
#[cfg_attr(kani, kani::unwind(6))]
#[cfg_attr(kani, kani::stub(LocalIdMap::try_insert, stub_try_insert))]
#[cfg_attr(kani, kani::stub(LocalIdMap::remove, stub_remove))]
#[cfg_attr(kani, kani::stub(LocalIdRegistry::unregister_expired_ids, stub_unregister_expired_ids))]
fn verif_probe_b() {
    let (reg, pre) = any_registry(2);
    let t = reg.timer();
    kani::cover!(reg.registered_ids.len() == 2 && pre.rpt > 0 && t.is_armed(), "ran");
    core::mem::forget(reg);
}

#[cfg_attr(kani, kani::proof)]
#[cfg_attr(kani, kani::unwind(6))]
#[cfg_attr(kani, kani::stub(LocalIdMap::try_insert, stub_try_insert))]
#[cfg_attr(kani, kani::stub(LocalIdMap::remove, stub_remove))]
#[cfg_attr(kani, kani::stub(LocalIdRegistry::unregister_expired_ids, stub_unregister_expired_ids))]
fn verif_probe_c() {
    let (reg, pre) = any_registry(2);
    let t = reg.active_id_count.get(&reg.registered_ids);
    kani::cover!(reg.registered_ids.len() == 2 && pre.rpt > 0 && t == 1, "ran");
    core::mem::forget(reg);
}

// ---- generated by tools/fixup.py: native replay entry ----
#[cfg(not(kani))]
#[test]
fn verif_replay() {
    kani::replay(&[
        ("verif_local_id_timeout_n3", verif_local_id_timeout_n3),
        ("verif_probe_registry_new", verif_probe_registry_new),
        ("verif_probe_b", verif_probe_b),
        ("verif_probe_c", verif_probe_c),
    ]);
}
