// C13-O2*: LocalIdRegistry, one operation from an ARBITRARY valid registry state.
//
// Shape: the number of registered IDs is concrete per harness (1..3 entries, inline SmallVec); every
// field of every entry (ID bytes 4..5, sequence number, retirement time, status + payload, reset
// token), next_sequence_number, retire_prior_to, the peer's limit (1..3) and the memo caches
// (cold / warm) are symbolic.
//
// Representation invariant INV (assumed on the pre-state, re-asserted on every post-state):
//   I1 sequence numbers strictly increase in registration order and are < next_sequence_number
//   I2 retire_prior_to <= next_sequence_number
//   I3 #IDs counting towards the limit (not retired) <= active_connection_id_limit   (<= 3)
//   I4 an ID retired by the endpoint itself (PendingRetirementConfirmation) has seq < retire_prior_to
//      (= the peer has been / will be asked to retire it)
//   I5 an ID whose NEW_CONNECTION_ID is still to be (re)sent or in flight
//      (PendingIssuance / PendingReissue / PendingAcknowledgement) has seq >= retire_prior_to
//      (= a frame issuing it never asks to retire beyond itself, RFC 9000 19.15)
//      and is not the handshake ID (sequence number 0 starts Active)
//   I6 IDs pairwise distinct
//   I7 retirement times do not decrease with the sequence number among the IDs issued by
//      register_connection_id (seq >= 1): if a later ID has a retirement time, every earlier one has
//      one that is not later.  (expiration = now + Format::lifetime(); holds for a constant lifetime)
//
// Cut (Kani stubs, see each obligation): the endpoint-wide Arc<Mutex<ConnectionIdMapperState>> hash
// maps. LocalIdMap::try_insert / LocalIdMap::remove are replaced by recording stubs; the real Mutex
// and the real (empty) hash maps are still constructed by ConnectionIdMapper::new.
// The native replay has no stubs: there the real map is populated with the registered IDs and the
// map content is inspected instead of the recordings.
use super::*;
#[cfg(not(kani))]
use crate::kani;
use crate::connection::{
    connection_id_mapper::{ConnectionIdMapper, LocalIdMap},
    InternalConnectionIdGenerator,
};
use s2n_quic_core::{
    endpoint,
    packet::number::PacketNumberSpace,
    random,
    time::{Clock as _, NoopClock},
    varint::VarInt,
};

#[path = "/verif/harness/transport/cid_support.rs"]
mod cid_support;
use cid_support::*;

const MAXN: usize = 4;
/// concrete ID lengths of the registered entries (LocalId::MIN_LEN = 4)
const ID_LEN: [usize; MAXN] = [4, 5, 4, 5];

// ---------------------------------------------------------------- time
// Symbolic Timestamp arithmetic is what makes these harnesses blow up (measured: on_timeout with
// 16-bit symbolic microsecond offsets and a symbolic `now`: 64 M clauses, solver out of memory at
// 16 GB).  The registry only ever compares times against `now` (+1 ms timer granularity) and adds
// constants to `now`, so: `now` is the fixed instant T0+30 ms and every other time is a SYMBOLIC
// CHOICE among the concrete grid below (long elapsed / elapsed only thanks to the 1 ms granularity /
// just not elapsed / far ahead).
const NOW_US: u64 = 30_000;
const GRID_US: [u64; 4] = [0, 30_999, 31_000, 60_000];
// (compile-time constants: a run-time Duration::from_secs came back with nondeterministic
// nanoseconds under Kani 0.68 in this crate)
const D40: Duration = Duration::from_secs(40);
const D30: Duration = Duration::from_secs(30);
fn t_us(us: u64) -> Timestamp {
    NoopClock.get_time() + D40 + Duration::from_micros(us)
}
fn now() -> Timestamp {
    t_us(NOW_US)
}
/// grid point -> Timestamp (an if-then-else over four values computed once per harness)
#[derive(Clone, Copy)]
struct Grid([Timestamp; 4]);
impl Grid {
    fn new() -> Grid {
        Grid([t_us(GRID_US[0]), t_us(GRID_US[1]), t_us(GRID_US[2]), t_us(GRID_US[3])])
    }
    fn at(&self, g: u8) -> Timestamp {
        match g {
            0 => self.0[0],
            1 => self.0[1],
            2 => self.0[2],
            _ => self.0[3],
        }
    }
}
fn any_grid() -> u8 {
    let g: u8 = kani::any();
    kani::assume(g < 4);
    g
}
/// Timestamp::has_elapsed(now): deadline < now + 1 ms
fn elapsed(g: u8) -> bool {
    GRID_US[g as usize] < NOW_US + 1000
}
fn pn(v: u8) -> PacketNumber {
    PacketNumberSpace::ApplicationData.new_packet_number(VarInt::from_u8(v))
}

// ---------------------------------------------------------------- model of one registered ID
const S_ISSUE: u8 = 0; // PendingIssuance
const S_REISSUE: u8 = 1; // PendingReissue
const S_ACK: u8 = 2; // PendingAcknowledgement(pn)
const S_ACTIVE: u8 = 3; // Active
const S_RETIRING: u8 = 4; // PendingRetirementConfirmation(Option<removal time>)
const S_REMOVAL: u8 = 5; // PendingRemoval(removal time)

#[derive(Clone, Copy)]
struct E {
    idb: [u8; 5],
    idl: usize,
    id: connection::LocalId,
    seq: u32,
    rt: Option<u8>,
    rt_ts: Option<Timestamp>,
    st: u8,
    pnv: u8,
    tm: Option<u8>,
    tm_ts: Option<Timestamp>,
    tok: [u8; 16],
    tokw: u128,
}

impl E {
    /// `idl`: concrete ID length (a symbolic length makes every copy/compare of the ID a
    /// symbolic-size memcpy/memcmp)
    fn any(idl: usize, grid: &Grid) -> E {
        // (arrays are drawn through integers: no loops, the unwind bound stays small)
        let idw: u64 = kani::any();
        let w = idw.to_le_bytes();
        let idb: [u8; 5] = [w[0], w[1], w[2], w[3], w[4]];
        let seq: u32 = kani::any();
        let has_rt: bool = kani::any();
        let rt = any_grid();
        let st: u8 = kani::any();
        kani::assume(st <= S_REMOVAL);
        let pnv: u8 = kani::any();
        let has_tm: bool = kani::any();
        let tm = any_grid();
        kani::assume(st != S_REMOVAL || has_tm);
        let tokw: u128 = kani::any();
        let tok: [u8; 16] = tokw.to_le_bytes();
        E {
            idb,
            idl,
            id: connection::LocalId::try_from_bytes(&idb[..idl]).unwrap(),
            seq,
            rt: if has_rt { Some(rt) } else { None },
            rt_ts: if has_rt { Some(grid.at(rt)) } else { None },
            st,
            pnv,
            tm: if has_tm { Some(tm) } else { None },
            tm_ts: if has_tm { Some(grid.at(tm)) } else { None },
            tok,
            tokw,
        }
    }
    fn id(&self) -> connection::LocalId {
        self.id
    }
    fn status(&self) -> LocalIdStatus {
        match self.st {
            S_ISSUE => PendingIssuance,
            S_REISSUE => PendingReissue,
            S_ACK => PendingAcknowledgement(pn(self.pnv)),
            S_ACTIVE => Active,
            S_RETIRING => PendingRetirementConfirmation(self.tm_ts),
            _ => PendingRemoval(self.tm_ts.unwrap()),
        }
    }
    fn info(&self) -> LocalIdInfo {
        LocalIdInfo {
            id: self.id(),
            sequence_number: self.seq,
            retirement_time: self.rt_ts,
            stateless_reset_token: stateless_reset::Token::from(self.tok),
            status: self.status(),
        }
    }
    fn counts(&self) -> bool {
        self.st <= S_ACTIVE
    }
    fn same_id(&self, o: &E) -> bool {
        if self.idl != o.idl {
            return false;
        }
        let mut eq = true;
        let mut i = 0;
        while i < 5 {
            if i < self.idl && self.idb[i] != o.idb[i] {
                eq = false;
            }
            i += 1;
        }
        eq
    }
}

struct Pre {
    n: usize,
    e: [E; MAXN],
    next: u32,
    rpt: u32,
    limit: u8,
    rotate: bool,
    warm: bool,
    grid: Grid,
}

impl Pre {
    fn active(&self) -> u8 {
        let mut c = 0;
        let mut i = 0;
        while i < self.n {
            if self.e[i].counts() {
                c += 1;
            }
            i += 1;
        }
        c
    }

    /// INV on the model
    fn valid(&self) -> bool {
        let mut ok = self.limit >= 1 && self.limit <= 3 && self.rpt <= self.next;
        let mut i = 0;
        while i < self.n {
            let e = &self.e[i];
            ok &= e.seq < self.next;
            if i > 0 {
                ok &= self.e[i - 1].seq < e.seq;
            }
            if e.st == S_RETIRING {
                ok &= e.seq < self.rpt;
            }
            if e.st <= S_ACK {
                ok &= e.seq >= self.rpt && e.seq != 0;
            }
            let mut j = i + 1;
            while j < self.n {
                let l = &self.e[j];
                ok &= !e.same_id(l);
                if e.seq != 0 {
                    if let Some(lrt) = l.rt {
                        ok &= match e.rt {
                            Some(ert) => ert <= lrt,
                            None => false,
                        };
                    }
                }
                j += 1;
            }
            i += 1;
        }
        ok && self.active() <= self.limit && self.next >= 1
    }
}

// ---------------------------------------------------------------- mapper stubs (Kani only)
#[cfg(kani)]
static mut MAP_FREE: bool = true;
#[cfg(kani)]
static mut MAP_INSERTS: usize = 0;
#[cfg(kani)]
static mut MAP_INSERTED: Option<(connection::LocalId, InternalConnectionId)> = None;
#[cfg(kani)]
static mut MAP_REMOVES: usize = 0;
#[cfg(kani)]
static mut MAP_REMOVED: [Option<connection::LocalId>; MAXN] = [None; MAXN];

#[cfg(kani)]
fn stub_try_insert(_this: &mut LocalIdMap, local_id: &connection::LocalId, internal_id: InternalConnectionId) -> Result<(), ()> {
    unsafe {
        MAP_INSERTS += 1;
        MAP_INSERTED = Some((*local_id, internal_id));
        if MAP_FREE {
            Ok(())
        } else {
            Err(())
        }
    }
}

#[cfg(kani)]
fn stub_remove(_this: &mut LocalIdMap, local_id: &connection::LocalId) -> Option<InternalConnectionId> {
    unsafe {
        assert!(MAP_REMOVES < MAXN);
        MAP_REMOVED[MAP_REMOVES] = Some(*local_id);
        MAP_REMOVES += 1;
    }
    // "was stored in the mapper" (the caller debug-asserts it)
    Some(InternalConnectionIdGenerator::new().generate_id())
}

#[cfg(kani)]
static mut UNREGISTER_CALLS: usize = 0;
#[cfg(kani)]
static mut UNREGISTER_AT: Option<Timestamp> = None;
#[cfg(kani)]
static mut UNREGISTER_SAW_RPT: u32 = 0;

/// recording stub for the private LocalIdRegistry::unregister_expired_ids (SmallVec::retain with a
/// symbolic set of deletions is out of reach together with the rest of on_timeout)
#[cfg(kani)]
fn stub_unregister_expired_ids(this: &mut LocalIdRegistry, timestamp: Timestamp) {
    unsafe {
        UNREGISTER_CALLS += 1;
        UNREGISTER_AT = Some(timestamp);
        UNREGISTER_SAW_RPT = this.retire_prior_to;
    }
}

#[cfg(kani)]
fn reset_recordings() {
    unsafe {
        UNREGISTER_CALLS = 0;
        UNREGISTER_AT = None;
        MAP_INSERTS = 0;
        MAP_INSERTED = None;
        MAP_REMOVES = 0;
        MAP_REMOVED = [None; MAXN];
    }
}

// ---------------------------------------------------------------- registry builder
// Under Kani the endpoint-wide mapper state cannot be constructed at all (ConnectionIdMapper::new
// alone: CBMC out of memory at 16 GB, measured twice). Every access to it made by LocalIdRegistry is
// one of the two stubbed LocalIdMap methods, which never look at `self`: the state behind the REAL
// Arc<Mutex<..>> is therefore left uninitialised under Kani. Natively the real mapper is built.
#[cfg(kani)]
fn new_registry(rotate: bool) -> LocalIdRegistry {
    let state = Arc::new(Mutex::new(core::mem::MaybeUninit::<ConnectionIdMapperState>::uninit()));
    let state: Arc<Mutex<ConnectionIdMapperState>> =
        unsafe { Arc::from_raw(Arc::into_raw(state) as *const Mutex<ConnectionIdMapperState>) };
    let iid = InternalConnectionIdGenerator::new().generate_id();
    let hs = connection::LocalId::try_from_bytes(&[0xAA; 8]).unwrap();
    LocalIdRegistry::new(iid, state, &hs, None, stateless_reset::Token::from([0xAB; 16]), rotate)
}
#[cfg(not(kani))]
fn new_registry(rotate: bool) -> LocalIdRegistry {
    let mut rng = random::testing::Generator(123);
    let mut mapper = ConnectionIdMapper::new(&mut rng, endpoint::Type::Server);
    let iid = InternalConnectionIdGenerator::new().generate_id();
    // placeholder handshake ID (8 bytes: cannot collide with the 4..5 byte symbolic IDs)
    let hs = connection::LocalId::try_from_bytes(&[0xAA; 8]).unwrap();
    mapper.create_local_id_registry(iid, &hs, None, stateless_reset::Token::from([0xAB; 16]), rotate)
}

fn any_registry(n: usize) -> (LocalIdRegistry, Pre) {
    let grid = Grid::new();
    let first = E::any(ID_LEN[0], &grid);
    let mut es = [first; MAXN];
    let mut i = 1;
    while i < n {
        es[i] = E::any(ID_LEN[i], &grid);
        i += 1;
    }
    registry_from(n, es, grid)
}

fn registry_from(n: usize, es: [E; MAXN], grid: Grid) -> (LocalIdRegistry, Pre) {
    let next: u32 = kani::any();
    let rpt: u32 = kani::any();
    let limit: u8 = kani::any();
    let rotate: bool = kani::any();
    let warm: bool = kani::any();
    let pre = Pre { n, e: es, next, rpt, limit, rotate, warm, grid };
    kani::assume(pre.valid());

    let mut reg = new_registry(rotate);

    // the SmallVec is built in one piece with a concrete length: building it with push() leaves CBMC
    // with a symbolic container shape (every later loop over it is then unwound to the bound)
    let buf: [LocalIdInfo; 5] = [
        pre.e[0].info(),
        pre.e[if n > 1 { 1 } else { 0 }].info(),
        pre.e[if n > 2 { 2 } else { 0 }].info(),
        pre.e[if n > 3 { 3 } else { 0 }].info(),
        pre.e[0].info(),
    ];
    core::mem::forget(core::mem::replace(&mut reg.registered_ids, SmallVec::from_buf_and_len(buf, n)));
    reg.next_sequence_number = next;
    reg.retire_prior_to = rpt;
    reg.active_connection_id_limit = limit;
    reg.next_expiration.clear();
    reg.ack_interest.clear();
    reg.transmission_interest.clear();
    reg.active_id_count.clear();
    if warm {
        // caches filled: a missing clear() in the operation under test becomes visible
        let _ = reg.next_expiration.get(&reg.registered_ids);
        let _ = reg.ack_interest.get(&reg.registered_ids);
        let _ = reg.transmission_interest.get(&reg.registered_ids);
        let _ = reg.active_id_count.get(&reg.registered_ids);
    }
    #[cfg(not(kani))]
    {
        let mut guard = reg.state.lock().unwrap();
        let mut i = 0;
        while i < n {
            guard.local_id_map.try_insert(&pre.e[i].id(), reg.internal_id).unwrap();
            i += 1;
        }
    }
    #[cfg(kani)]
    reset_recordings();
    (reg, pre)
}

/// INV on the real registry
fn assert_inv(reg: &LocalIdRegistry) {
    assert!(reg.retire_prior_to <= reg.next_sequence_number && reg.next_sequence_number >= 1);
    let mut active = 0u8;
    let mut prev: Option<u32> = None;
    for info in reg.registered_ids.iter() {
        assert!(info.sequence_number < reg.next_sequence_number);
        if let Some(p) = prev {
            assert!(p < info.sequence_number);
        }
        prev = Some(info.sequence_number);
        match info.status {
            PendingRetirementConfirmation(_) => assert!(info.sequence_number < reg.retire_prior_to),
            PendingIssuance | PendingReissue | PendingAcknowledgement(_) => {
                assert!(info.sequence_number >= reg.retire_prior_to);
                assert!(info.sequence_number != 0);
            }
            _ => {}
        }
        if !matches!(info.status, PendingRetirementConfirmation(_) | PendingRemoval(_)) {
            active += 1;
        }
    }
    assert!(active <= reg.active_connection_id_limit);
}

fn token_of(info: &LocalIdInfo) -> u128 {
    u128::from_le_bytes(info.stateless_reset_token.into_inner())
}

fn unchanged(info: &LocalIdInfo, e: &E) -> bool {
    info.sequence_number == e.seq
        && info.id == e.id()
        && info.status == e.status()
        && info.retirement_time == e.rt_ts
        && token_of(info) == e.tokw
}

/// the ID is (still) routed to this connection / no longer routed (native build: real map)
#[cfg(not(kani))]
fn mapped(reg: &LocalIdRegistry, id: &connection::LocalId) -> bool {
    reg.state.lock().unwrap().local_id_map.get(id) == Some(reg.internal_id)
}

// ================================================================ C13-O2a: interest + registration
fn register_body(n: usize) {
    let (mut reg, pre) = any_registry(n);
    let active = pre.active();
    let room = pre.limit - active;

    // ---- how many new IDs the registry asks for: exactly up to the peer's limit
    let interest = reg.connection_id_interest();
    if room > 0 {
        assert!(interest == connection::id::Interest::New(room));
    } else {
        assert!(interest == connection::id::Interest::None);
    }
    kani::cover!(room == 0, "at the limit: no new ID wanted");
    kani::cover!(room == 2, "two IDs wanted");

    // ---- the caller (ConnectionImpl::on_new_connection_id) registers only what was asked for
    kani::assume(room > 0);
    kani::assume(pre.next < u32::MAX);
    let idw: u64 = kani::any();
    let w = idw.to_le_bytes();
    let nb: [u8; 5] = [w[0], w[1], w[2], w[3], w[4]];
    // same length as the first registered ID, so that a duplicate is possible
    let nl = ID_LEN[0];
    let new_id = connection::LocalId::try_from_bytes(&nb[..nl]).unwrap();
    let tokw: u128 = kani::any();
    let has_exp: bool = kani::any();
    let g = any_grid();
    // expiration = retirement time + EXPIRATION_BUFFER
    let expiration = if has_exp { Some(pre.grid.at(g) + D30) } else { None };
    let map_free: bool = kani::any();
    let mut dup = false;
    let mut i = 0;
    while i < n {
        let e = &pre.e[i];
        if e.idl == nl {
            let mut eq = true;
            let mut b = 0;
            while b < 5 {
                if b < nl && e.idb[b] != nb[b] {
                    eq = false;
                }
                b += 1;
            }
            dup |= eq;
        }
        // caller obligations: a fresh reset token (debug-asserted by the registry) and, for I7, a
        // lifetime that does not shrink
        kani::assume(e.tokw != tokw);
        if has_exp && e.seq != 0 {
            kani::assume(matches!(e.rt, Some(t) if GRID_US[t as usize] <= GRID_US[g as usize]));
        }
        i += 1;
    }
    #[cfg(kani)]
    unsafe {
        MAP_FREE = map_free;
    }
    #[cfg(not(kani))]
    if !map_free && !dup {
        // another connection of the endpoint owns this ID
        let mut gen = InternalConnectionIdGenerator::new();
        let _ = gen.generate_id();
        reg.state.lock().unwrap().local_id_map.try_insert(&new_id, gen.generate_id()).unwrap();
    }

    let r = reg.register_connection_id(&new_id, expiration, stateless_reset::Token::from(tokw.to_le_bytes()));

    let accepted = !dup && map_free;
    if accepted {
        assert!(r.is_ok());
        assert!(reg.registered_ids.len() == n + 1);
        let info = &reg.registered_ids[n];
        // consecutive sequence numbers, not yet announced, announced before it counts as usable
        assert!(info.sequence_number == pre.next);
        assert!(reg.next_sequence_number == pre.next + 1);
        assert!(info.id == new_id && token_of(info) == tokw);
        assert!(info.status == PendingIssuance);
        assert!(info.retirement_time == if has_exp { Some(pre.grid.at(g)) } else { None });
        // never more unretired IDs than the peer allows
        assert!(active + 1 <= pre.limit);
        // routed to this connection
        #[cfg(kani)]
        unsafe {
            assert!(MAP_INSERTS == 1 && MAP_INSERTED == Some((new_id, reg.internal_id)));
        }
        #[cfg(not(kani))]
        assert!(mapped(&reg, &new_id));
        // and one ID less is wanted now
        let after = reg.connection_id_interest();
        assert!(after == if room > 1 { connection::id::Interest::New(room - 1) } else { connection::id::Interest::None });
        kani::cover!(room == 1, "the last permitted ID is registered");
        kani::cover!(has_exp, "ID with a lifetime registered");
    } else {
        assert!(r == Err(LocalIdRegistrationError::ConnectionIdInUse));
        assert!(reg.registered_ids.len() == n);
        assert!(reg.next_sequence_number == pre.next);
        #[cfg(kani)]
        unsafe {
            // an ID this connection already issued never reaches the endpoint map
            assert!(MAP_INSERTS == if dup { 0 } else { 1 });
        }
        kani::cover!(dup, "ID already issued on this connection refused");
        kani::cover!(!dup, "ID owned by another connection refused");
    }
    let mut i = 0;
    while i < n {
        assert!(unchanged(&reg.registered_ids[i], &pre.e[i]));
        i += 1;
    }
    assert!(reg.retire_prior_to == pre.rpt && reg.active_connection_id_limit == pre.limit);
    assert_inv(&reg);
    core::mem::forget(reg);
}

// ================================================================ C13-O2b: on_timeout
fn timeout_body(n: usize) {
    let (mut reg, pre) = any_registry(n);
    let now = now();

    reg.on_timeout(now);

    // ---- oracle
    let mut fired = false;
    let mut i = 0;
    while i < n {
        let e = &pre.e[i];
        let change = match e.st {
            S_REMOVAL => e.tm,
            S_RETIRING => match e.tm {
                Some(t) => Some(t),
                None => e.rt,
            },
            _ => e.rt,
        };
        if let Some(t) = change {
            fired |= elapsed(t);
        }
        i += 1;
    }
    let mut want_rpt = pre.rpt;
    let mut k = 0; // index into the surviving entries
    let mut removed = 0;
    let mut newly_retired = 0;
    let mut i = 0;
    while i < n {
        let e = &pre.e[i];
        let ready = fired && e.st <= S_ACTIVE && matches!(e.rt, Some(t) if elapsed(t));
        // (under Kani the removal of expired IDs is cut away by the stub: C13-O2c decides it)
        let expired = !cfg!(kani) && fired && e.st >= S_RETIRING && matches!(e.tm, Some(t) if elapsed(t));
        if expired {
            #[cfg(not(kani))]
            assert!(!mapped(&reg, &e.id()));
            removed += 1;
        } else {
            assert!(reg.registered_ids.len() > k);
            let info = &reg.registered_ids[k];
            if ready {
                // retired by timeout: the peer is asked to retire it (retire_prior_to covers it) and
                // it stays routable for another EXPIRATION_BUFFER
                assert!(info.sequence_number == e.seq && info.id == e.id());
                assert!(info.status == PendingRetirementConfirmation(Some(now + D30)));
                assert!(reg.retire_prior_to > e.seq);
                if want_rpt < e.seq + 1 {
                    want_rpt = e.seq + 1;
                }
                newly_retired += 1;
                kani::cover!(e.st <= S_REISSUE, "an ID whose NEW_CONNECTION_ID is still unsent retires by timeout");
            } else {
                assert!(unchanged(info, e));
            }
            // still routed to this connection
            #[cfg(not(kani))]
            assert!(mapped(&reg, &e.id()));
            k += 1;
        }
        i += 1;
    }
    assert!(reg.registered_ids.len() == k);
    #[cfg(kani)]
    unsafe {
        // expired IDs are looked for exactly when the timer fired, at the current time, after the
        // retirements were applied
        assert!(MAP_REMOVES == 0);
        assert!(UNREGISTER_CALLS == if fired { 1 } else { 0 });
        if fired {
            assert!(UNREGISTER_AT == Some(now) && UNREGISTER_SAW_RPT == want_rpt);
        }
    }
    // retire_prior_to moves exactly to one past the largest ID retired now: never beyond an issued ID
    assert!(reg.retire_prior_to == want_rpt);
    assert!(reg.next_sequence_number == pre.next);
    assert!(reg.active_connection_id_limit == pre.limit);
    kani::cover!(!fired, "timer not due: nothing changes");
    kani::cover!(newly_retired >= 1 && want_rpt > pre.rpt, "timeout retires an ID and raises retire_prior_to");
    kani::cover!(newly_retired >= 1 && want_rpt == pre.rpt, "timeout retires an ID already below retire_prior_to");
    kani::cover!(newly_retired == 2, "two IDs retire in one timeout");
    let _ = removed;
    assert_inv(&reg);
    core::mem::forget(reg);
}

// ================================================================ C13-O2c: removal of expired IDs
// (the part cut out of C13-O2b) concrete status/expiry pattern, everything else symbolic.
const K_LIVE: u8 = 0; // Active, no retirement time
const K_GONE_REMOVAL: u8 = 1; // PendingRemoval, removal time elapsed
const K_GONE_RETIRING: u8 = 2; // PendingRetirementConfirmation(Some(elapsed))
const K_KEEP_REMOVAL: u8 = 3; // PendingRemoval, removal time ahead
const K_KEEP_RETIRING: u8 = 4; // PendingRetirementConfirmation(None)

fn expire_body(kinds: [u8; 3]) {
    let n = 3;
    let grid = Grid::new();
    let mut es = [E::any(ID_LEN[0], &grid); MAXN];
    let mut i = 0;
    while i < n {
        let mut e = E::any(ID_LEN[i], &grid);
        // concrete status and times (no retirement by this timeout, expiry decided by the pattern)
        e.rt = None;
        e.rt_ts = None;
        match kinds[i] {
            K_LIVE => {
                e.st = S_ACTIVE;
            }
            K_GONE_REMOVAL => {
                e.st = S_REMOVAL;
                e.tm = Some(0);
                e.tm_ts = Some(grid.0[0]);
            }
            K_GONE_RETIRING => {
                e.st = S_RETIRING;
                e.tm = Some(1);
                e.tm_ts = Some(grid.0[1]);
            }
            K_KEEP_REMOVAL => {
                e.st = S_REMOVAL;
                e.tm = Some(2);
                e.tm_ts = Some(grid.0[2]);
            }
            _ => {
                e.st = S_RETIRING;
                e.tm = None;
                e.tm_ts = None;
            }
        }
        es[i] = e;
        i += 1;
    }
    let (mut reg, pre) = registry_from(n, es, grid);
    let now = now();

    reg.on_timeout(now);

    let mut k = 0;
    let mut removed = 0;
    let mut i = 0;
    while i < n {
        let e = &pre.e[i];
        if kinds[i] == K_GONE_REMOVAL || kinds[i] == K_GONE_RETIRING {
            // unregistered: no longer routed
            #[cfg(kani)]
            unsafe {
                assert!(MAP_REMOVES > removed && MAP_REMOVED[removed] == Some(e.id()));
            }
            #[cfg(not(kani))]
            assert!(!mapped(&reg, &e.id()));
            removed += 1;
        } else {
            assert!(reg.registered_ids.len() > k);
            assert!(unchanged(&reg.registered_ids[k], e));
            #[cfg(not(kani))]
            assert!(mapped(&reg, &e.id()));
            k += 1;
        }
        i += 1;
    }
    assert!(reg.registered_ids.len() == k);
    #[cfg(kani)]
    assert!(unsafe { MAP_REMOVES } == removed);
    assert!(reg.retire_prior_to == pre.rpt && reg.next_sequence_number == pre.next);
    // the freed slots are offered again
    let room = pre.limit - pre.active();
    assert!(reg.connection_id_interest() == if room > 0 { connection::id::Interest::New(room) } else { connection::id::Interest::None });
    assert_inv(&reg);
    core::mem::forget(reg);
}

// ================================================================ C13-O2d: on_transmit
fn transmit_body(n: usize, encode: bool) {
    let (mut reg, pre) = any_registry(n);
    let c: u8 = kani::any();
    kani::assume(c < 4);
    let constraint = match c {
        0 => transmission::Constraint::None,
        1 => transmission::Constraint::RetransmissionOnly,
        2 => transmission::Constraint::CongestionLimited,
        _ => transmission::Constraint::AmplificationLimited,
    };
    let frames_left: usize = kani::any();
    kani::assume(frames_left <= 3);
    let mut ctx = RecCtx::new(now(), constraint, frames_left, pn(200));
    ctx.encode_new = encode;

    reg.on_transmit(&mut ctx);

    let mut k = 0;
    let mut i = 0;
    while i < n {
        let e = &pre.e[i];
        // new data only without constraint, lost data also during fast retransmission
        let wants = (e.st == S_ISSUE && c == 0) || (e.st == S_REISSUE && c <= 1);
        let info = &reg.registered_ids[i];
        if wants && k < frames_left {
            assert!(ctx.n > k && ctx.kind[k] == K_NEW_CONNECTION_ID);
            // the frame announces this ID under its own sequence number ...
            assert!(ctx.a[k] == e.seq as u64);
            // ... carries the current retire_prior_to, which never exceeds the ID being issued
            // (RFC 9000 19.15: a larger value is a FRAME_ENCODING_ERROR at the peer)
            assert!(ctx.b[k] == pre.rpt as u64);
            assert!(ctx.b[k] <= ctx.a[k]);
            assert!(ctx.a[k] < pre.next as u64);
            if encode {
                // on the wire: 0x18, seq, retire_prior_to, length, connection ID, reset token
                let raw = &ctx.raw[k];
                let len = ctx.raw_len[k];
                assert!(raw[0] == 0x18);
                let (s, sl) = crate::verif_support::ref_varint(&raw[1..len]).unwrap();
                let (r, rl) = crate::verif_support::ref_varint(&raw[1 + sl..len]).unwrap();
                assert!(s == e.seq as u64 && r == pre.rpt as u64);
                let at = 1 + sl + rl;
                assert!(raw[at] as usize == e.idl && len == at + 1 + e.idl + 16);
                let b: usize = kani::any();
                kani::assume(b < e.idl);
                assert!(raw[at + 1 + b] == e.idb[b]);
                let t: usize = kani::any();
                kani::assume(t < 16);
                assert!(raw[at + 1 + e.idl + t] == e.tok[t]);
            }
            assert!(info.status == PendingAcknowledgement(pn(200)));
            assert!(info.sequence_number == e.seq && info.id == e.id() && token_of(info) == e.tokw);
            k += 1;
        } else {
            assert!(unchanged(info, e));
        }
        i += 1;
    }
    // nothing else is written: in particular no frame for an ID that is active, retired or unknown
    assert!(ctx.n == k);
    assert!(reg.registered_ids.len() == n);
    assert!(reg.retire_prior_to == pre.rpt && reg.next_sequence_number == pre.next);
    kani::cover!(k == 2, "two NEW_CONNECTION_ID frames in one packet");
    kani::cover!(k == 1 && frames_left == 1, "packet full after one frame: the second ID stays pending");
    kani::cover!(k == 1 && c == 1, "reissue during fast retransmission");
    kani::cover!(k >= 1 && pre.rpt > 0, "frame carries a non-zero retire_prior_to");
    assert_inv(&reg);
    core::mem::forget(reg);
}

// ================================================================ C13-O2e: on_retire_connection_id
fn retire_body(n: usize) {
    let (mut reg, pre) = any_registry(n);
    let seq: u32 = kani::any();
    // the packet carrying the frame is addressed with one of our IDs (or with an ID not registered)
    let j: usize = kani::any();
    kani::assume(j <= n);
    let dcid = if j < n {
        pre.e[if j < n { j } else { 0 }].id()
    } else {
        connection::LocalId::try_from_bytes(&[0xCC; 6]).unwrap()
    };
    let r3: u8 = kani::any();
    kani::assume(r3 < 3);
    let rtt_us: u64 = match r3 {
        0 => 0,
        1 => 333,
        _ => 100_000,
    };
    let now = now();
    let before = pre.limit - pre.active();

    let r = reg.on_retire_connection_id(seq, &dcid, Duration::from_micros(rtt_us), now);

    let mut hit: Option<usize> = None;
    let mut i = 0;
    while i < n {
        if hit.is_none() && pre.e[i].seq == seq && pre.e[i].st != S_REMOVAL {
            hit = Some(i);
        }
        i += 1;
    }
    let mut changed: Option<usize> = None;
    if seq >= pre.next {
        // a sequence number never issued
        assert!(r == Err(LocalIdRegistrationError::InvalidSequenceNumber));
        kani::cover!(true, "RETIRE_CONNECTION_ID for a sequence number never issued is refused");
    } else {
        match hit {
            Some(h) if j == h => {
                // retiring the ID the packet is addressed with
                assert!(r == Err(LocalIdRegistrationError::InvalidSequenceNumber));
                kani::cover!(true, "retiring the packet's own destination ID is refused");
            }
            Some(h) => {
                assert!(r.is_ok());
                changed = Some(h);
                kani::cover!(pre.e[h].st == S_RETIRING, "peer confirms a retirement we asked for");
                kani::cover!(pre.e[h].st == S_ACTIVE, "peer retires an active ID on its own");
                kani::cover!(pre.e[h].st <= S_ACK, "peer retires an ID whose NEW_CONNECTION_ID is unacknowledged");
            }
            None => {
                assert!(r.is_ok());
                kani::cover!(true, "duplicate / already removed: ignored");
            }
        }
    }
    let mut i = 0;
    while i < n {
        let info = &reg.registered_ids[i];
        let e = &pre.e[i];
        if changed == Some(i) {
            // kept routable for 3 RTT (reordered packets), then removed
            assert!(info.status == PendingRemoval(t_us(NOW_US + 3 * rtt_us)));
            assert!(info.sequence_number == e.seq && info.id == e.id() && info.retirement_time == e.rt_ts);
        } else {
            assert!(unchanged(info, e));
        }
        i += 1;
    }
    assert!(reg.registered_ids.len() == n);
    assert!(reg.retire_prior_to == pre.rpt && reg.next_sequence_number == pre.next);
    // a replacement is asked for exactly when an ID that counted towards the limit went away
    let freed = matches!(changed, Some(h) if pre.e[h].st <= S_ACTIVE);
    let after = before + if freed { 1 } else { 0 };
    assert!(reg.connection_id_interest() == if after > 0 { connection::id::Interest::New(after) } else { connection::id::Interest::None });
    assert_inv(&reg);
    core::mem::forget(reg);
}

// ================================================================ C13-O2f: on_packet_ack / on_packet_loss
fn ack_loss_body(n: usize) {
    let (mut reg, pre) = any_registry(n);
    let lo: u8 = kani::any();
    let hi: u8 = kani::any();
    kani::assume(lo <= hi);
    let set = s2n_quic_core::packet::number::PacketNumberRange::new(pn(lo), pn(hi));
    let lost: bool = kani::any();
    if lost {
        reg.on_packet_loss(&set);
    } else {
        reg.on_packet_ack(&set);
    }
    let mut i = 0;
    while i < n {
        let info = &reg.registered_ids[i];
        let e = &pre.e[i];
        if e.st == S_ACK && lo <= e.pnv && e.pnv <= hi {
            assert!(info.sequence_number == e.seq && info.id == e.id() && info.retirement_time == e.rt_ts);
            if lost {
                // announced again, with the same sequence number and token
                assert!(info.status == PendingReissue && token_of(info) == e.tokw);
                kani::cover!(true, "lost NEW_CONNECTION_ID is queued for reissue");
            } else {
                assert!(info.status == Active && token_of(info) == 0);
                kani::cover!(true, "acknowledged NEW_CONNECTION_ID activates the ID");
            }
        } else {
            assert!(unchanged(info, e));
        }
        i += 1;
    }
    assert!(reg.registered_ids.len() == n);
    assert!(reg.retire_prior_to == pre.rpt && reg.next_sequence_number == pre.next);
    assert_inv(&reg);
    core::mem::forget(reg);
}

// ================================================================ C13-O2g: handshake ID rotation
fn handshake_body(n: usize) {
    let (mut reg, pre) = any_registry(n);
    reg.on_handshake_confirmed();
    let mut i = 0;
    while i < n {
        let info = &reg.registered_ids[i];
        let e = &pre.e[i];
        if pre.rotate && e.seq == 0 && e.st <= S_ACTIVE {
            // the peer is asked to retire the handshake ID; it stays routable until its own expiry
            assert!(info.sequence_number == 0 && info.id == e.id() && info.retirement_time == e.rt_ts);
            let removal = match e.rt {
                Some(t) => Some(t_us(GRID_US[t as usize] + 30_000_000)),
                None => None,
            };
            assert!(info.status == PendingRetirementConfirmation(removal));
            assert!(reg.retire_prior_to >= 1);
            kani::cover!(pre.rpt == 0, "handshake ID retired: retire_prior_to 0 -> 1");
        } else {
            assert!(unchanged(info, e));
        }
        i += 1;
    }
    let had = n > 0 && pre.e[0].seq == 0 && pre.e[0].st <= S_ACTIVE && pre.rotate;
    assert!(reg.retire_prior_to == if had && pre.rpt == 0 { 1 } else { pre.rpt });
    assert!(reg.registered_ids.len() == n && reg.next_sequence_number == pre.next);
    kani::cover!(!pre.rotate, "rotation disabled: nothing happens");
    kani::cover!(pre.rotate && !had, "handshake ID already retired or gone");
    assert_inv(&reg);
    core::mem::forget(reg);
}

// ---------------------------------------------------------------- harnesses
macro_rules! local_harness {
    ($name:ident, $unwind:expr, $body:expr) => {
        #[cfg_attr(kani, kani::proof)]
        #[cfg_attr(kani, kani::unwind($unwind))]
        #[cfg_attr(kani, kani::stub(LocalIdMap::try_insert, stub_try_insert))]
        #[cfg_attr(kani, kani::stub(LocalIdMap::remove, stub_remove))]
        fn $name() {
            $body;
        }
    };
}
macro_rules! local_harness_cut {
    ($name:ident, $unwind:expr, $body:expr) => {
        #[cfg_attr(kani, kani::proof)]
        #[cfg_attr(kani, kani::unwind($unwind))]
        #[cfg_attr(kani, kani::stub(LocalIdMap::try_insert, stub_try_insert))]
        #[cfg_attr(kani, kani::stub(LocalIdMap::remove, stub_remove))]
        #[cfg_attr(kani, kani::stub(LocalIdRegistry::unregister_expired_ids, stub_unregister_expired_ids))]
        fn $name() {
            $body;
        }
    };
}

local_harness!(verif_local_id_register_n1, 18, register_body(1));
local_harness!(verif_local_id_register_n2, 18, register_body(2));
local_harness_cut!(verif_local_id_timeout_n2, 6, timeout_body(2));
local_harness_cut!(verif_local_id_timeout_n3, 6, timeout_body(3));
local_harness!(verif_local_id_expire_a, 6, expire_body([K_GONE_REMOVAL, K_LIVE, K_KEEP_REMOVAL]));
local_harness!(verif_local_id_expire_b, 6, expire_body([K_LIVE, K_GONE_RETIRING, K_GONE_REMOVAL]));
local_harness!(verif_local_id_expire_c, 6, expire_body([K_KEEP_RETIRING, K_GONE_REMOVAL, K_LIVE]));
local_harness!(verif_local_id_transmit_n2, 6, transmit_body(2, false));
local_harness!(verif_local_id_transmit_n3, 6, transmit_body(3, false));
local_harness!(verif_local_id_transmit_wire_n2, 10, transmit_body(2, true));
local_harness!(verif_local_id_retire_n2, 8, retire_body(2));
local_harness!(verif_local_id_ack_loss_n2, 6, ack_loss_body(2));
local_harness!(verif_local_id_handshake_n2, 6, handshake_body(2));

// ---- generated by tools/fixup.py: native replay entry ----
#[cfg(not(kani))]
#[test]
fn verif_replay() {
    kani::replay(&[
        ("verif_local_id_register_n1", verif_local_id_register_n1),
        ("verif_local_id_register_n2", verif_local_id_register_n2),
        ("verif_local_id_timeout_n2", verif_local_id_timeout_n2),
        ("verif_local_id_timeout_n3", verif_local_id_timeout_n3),
        ("verif_local_id_expire_a", verif_local_id_expire_a),
        ("verif_local_id_expire_b", verif_local_id_expire_b),
        ("verif_local_id_expire_c", verif_local_id_expire_c),
        ("verif_local_id_transmit_n2", verif_local_id_transmit_n2),
        ("verif_local_id_transmit_n3", verif_local_id_transmit_n3),
        ("verif_local_id_transmit_wire_n2", verif_local_id_transmit_wire_n2),
        ("verif_local_id_retire_n2", verif_local_id_retire_n2),
        ("verif_local_id_ack_loss_n2", verif_local_id_ack_loss_n2),
        ("verif_local_id_handshake_n2", verif_local_id_handshake_n2),
    ]);
}
