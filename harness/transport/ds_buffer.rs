// C01-O4 / C12-O1 / C12-O3: the retransmission buffer of a send stream. A view over any
// byte range yields exactly the bytes originally written at those offsets (so a retransmission is
// identical to the first transmission), FIN is attached only to the final byte, and releasing
// acknowledged bytes keeps exactly the unacknowledged suffix.
use super::*;
#[cfg(not(kani))]
use crate::kani;

// all bytes distinct: a byte identifies its position in the stream
static DATA: [u8; 12] = [10, 11, 12, 13, 20, 21, 22, 23, 30, 31, 32, 33];

fn any_buffer() -> (Buffer, u64, usize, usize) {
    let l0: usize = kani::any();
    let l1: usize = kani::any();
    kani::assume(l0 >= 1 && l0 <= 4 && l1 >= 1 && l1 <= 4);
    let head: u64 = kani::any();
    kani::assume(head <= (1 << 62) - 1 - 64);
    let mut buffer = Buffer {
        chunks: VecDeque::with_capacity(4),
        head: VarInt::new(head).unwrap(),
        pending_len: VarInt::from_u8(0),
    };
    let r0 = buffer.push(Bytes::from_static(&DATA[0..4]).slice(0..l0));
    let r1 = buffer.push(Bytes::from_static(&DATA[4..8]).slice(0..l1));
    // push reports the stream offsets the bytes were written at
    assert!(r0.start_inclusive().as_u64() == head && r0.end_inclusive().as_u64() == head + l0 as u64 - 1);
    assert!(r1.start_inclusive().as_u64() == head + l0 as u64 && r1.end_inclusive().as_u64() == head + (l0 + l1) as u64 - 1);
    (buffer, head, l0, l1)
}

/// byte written at position `pos` (relative to the buffer head at creation)
fn written(pos: usize, l0: usize) -> u8 {
    if pos < l0 {
        DATA[pos]
    } else {
        DATA[4 + pos - l0]
    }
}

#[cfg_attr(kani, kani::proof)]
#[cfg_attr(kani, kani::unwind(6))]
fn verif_ds_view_two_chunks() {
    let (buffer, head, l0, l1) = any_buffer();
    let total = l0 + l1;
    let a: usize = kani::any();
    let b: usize = kani::any();
    kani::assume(a <= b && b < total);
    let has_fin: bool = kani::any();
    let range: Interval<VarInt> =
        (VarInt::new(head + a as u64).unwrap()..=VarInt::new(head + b as u64).unwrap()).into();
    let mut viewer = buffer.viewer();
    let mut view = viewer.next_view(range, has_fin);
    assert!(view.len().as_u64() == (b - a + 1) as u64);
    // FIN only on a view that ends at the final byte
    assert!(view.is_fin() == (has_fin && b == total - 1));
    // flatten
    let mut out = [0u8; 8];
    let mut n = 0;
    for s in view.iter::<&[u8]>() {
        let mut i = 0;
        while i < s.len() {
            out[n] = s[i];
            n += 1;
            i += 1;
        }
    }
    assert!(n == b - a + 1);
    let k: usize = kani::any();
    kani::assume(k < n);
    assert!(out[k] == written(a + k, l0));
    // trimming bytes off the end of a view drops the FIN
    let t: usize = kani::any();
    kani::assume(t <= n);
    let fin_before = view.is_fin();
    assert!(view.trim_off(t).is_ok());
    assert!(view.len().as_u64() == (n - t) as u64);
    assert!(view.is_fin() == (fin_before && t == 0));
    kani::cover!(a < l0 && b >= l0, "view spans both chunks");
    kani::cover!(a >= l0, "view starts in the second chunk");
    kani::cover!(fin_before && t > 0, "FIN dropped by trimming");
    core::mem::forget(buffer);
}

// one large application chunk (> 64 KiB): a view anywhere inside it, up to 4 bytes long, points at
// exactly those offsets of the chunk. The chunk is all zeroes (a 70 000-byte array with
// position-dependent content drives CBMC beyond 18 GB, measured), so the check is on WHERE the
// yielded slice points (offset from the chunk start), not on its content.
const BIG_LEN: usize = 70_000;
static BIG: [u8; BIG_LEN] = [0u8; BIG_LEN];

#[cfg_attr(kani, kani::proof)]
#[cfg_attr(kani, kani::unwind(6))]
fn verif_ds_view_large_chunk() {
    let head: u64 = kani::any();
    kani::assume(head <= (1 << 62) - 1 - 100_000);
    let mut buffer = Buffer {
        chunks: VecDeque::with_capacity(2),
        head: VarInt::new(head).unwrap(),
        pending_len: VarInt::from_u8(0),
    };
    let _ = buffer.push(Bytes::from_static(&BIG));
    let a: usize = kani::any();
    let n: usize = kani::any();
    kani::assume(n >= 1 && n <= 4 && a < BIG_LEN && a + n <= BIG_LEN);
    let range: Interval<VarInt> =
        (VarInt::new(head + a as u64).unwrap()..=VarInt::new(head + (a + n - 1) as u64).unwrap()).into();
    let mut viewer = buffer.viewer();
    let view = viewer.next_view(range, false);
    assert!(view.len().as_u64() == n as u64);
    let mut slices = 0;
    for s in view.iter::<&[u8]>() {
        assert!(s.len() == n);
        let off = (s.as_ptr() as usize).wrapping_sub(BIG.as_ptr() as usize);
        assert!(off == a);
        slices += 1;
    }
    assert!(slices == 1);
    kani::cover!(a >= 65_536, "view starts beyond 64 KiB into the chunk");
    kani::cover!(a == 65_535 && n == 2, "view straddles the 64 KiB mark");
    core::mem::forget(buffer);
}

// Buffer::release is NOT covered: measured out of reach for CBMC — even one fully concrete case
// (chunks of 2 and 3 bytes, release at 3) exhausts memory during propositional reduction
// (VecDeque pop_front/push_front + Bytes::advance + the debug integrity check); see DESIGN.md.

// ---- generated by tools/fixup.py: native replay entry ----
#[cfg(not(kani))]
#[test]
fn verif_replay() {
    kani::replay(&[
        ("verif_ds_view_two_chunks", verif_ds_view_two_chunks),
        ("verif_ds_view_large_chunk", verif_ds_view_large_chunk),
    ]);
}
