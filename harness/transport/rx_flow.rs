// C04-O1 (stream level): ReceiveStreamFlowController — data beyond the advertised stream limit or
// beyond the connection limit is a FLOW_CONTROL_ERROR and changes nothing; the advertised stream
// limit is exactly consumed + window. A second stream shares the connection controller, so the
// connection limit is enforced on the SUM over streams.
use super::*;
#[cfg(not(kani))]
use crate::kani;

const M: u64 = (1 << 62) - 1;

fn vi(max: u64) -> VarInt {
    let v: u64 = kani::any();
    kani::assume(v <= max);
    VarInt::new(v).unwrap()
}

#[cfg_attr(kani, kani::proof)]
#[cfg_attr(kani, kani::unwind(2))]
fn verif_rx_stream_flow_step() {
    let conn_window: u32 = kani::any();
    let conn_init = vi(M);
    let s_window: u32 = kani::any();
    let s_init = vi(M);
    kani::assume(conn_init.as_u64() <= conn_window as u64 && s_init.as_u64() <= s_window as u64);
    let conn = IncomingConnectionFlowController::new(conn_init, conn_window);
    let mut fc = ReceiveStreamFlowController::new(conn.clone(), s_init, s_window);
    // an arbitrary point of the connection's life, reached through the API:
    //  * another stream has received `other` bytes (charged to the connection, not yet consumed)
    //  * this stream has received `acquired` bytes, of which the application consumed `released`
    let other = vi(M);
    let acquired = vi(M);
    let released = vi(M);
    kani::assume(released <= acquired && acquired.as_u64() <= s_window as u64);
    kani::assume(other.as_u64() as u128 + acquired.as_u64() as u128 <= conn_window as u128);
    {
        let mut c = conn.clone();
        assert!(c.acquire_window(other).is_ok());
    }
    assert!(fc.acquire_window_up_to(acquired, None).is_ok());
    if released.as_u64() > 0 {
        fc.release_window(released);
    }
    let adv_stream0 = (released.as_u64() + s_window as u64).min(M);
    let conn_adv = (released.as_u64() + conn_window as u64).min(M);
    let conn_acquired0 = acquired.as_u64() + other.as_u64();
    assert!(fc.read_window_sync.latest_value().as_u64() == adv_stream0);
    assert!(fc.released_connection_window == released);
    assert!(fc.acquired_connection_window == acquired);
    assert!(conn.acquired_window().as_u64() == conn_acquired0);

    if kani::any() {
        let off = vi(M);
        let r = fc.acquire_window_up_to(off, None);
        let additional = off.as_u64().saturating_sub(acquired.as_u64());
        let over_stream = off.as_u64() > adv_stream0;
        let over_conn = additional > conn_adv - conn_acquired0;
        if over_stream || over_conn {
            assert!(matches!(r, Err(e) if e.code == transport::Error::FLOW_CONTROL_ERROR.code));
            assert!(fc.acquired_connection_window == acquired);
            assert!(conn.acquired_window().as_u64() == conn_acquired0);
            kani::cover!(over_stream && !over_conn, "stream limit exceeded");
            kani::cover!(!over_stream && over_conn && other.as_u64() > 0, "connection limit exceeded because of the other stream's data");
        } else {
            assert!(r.is_ok());
            assert!(fc.acquired_connection_window.as_u64() == acquired.as_u64() + additional);
            // every new byte of this stream is charged to the connection exactly once
            assert!(conn.acquired_window().as_u64() == conn_acquired0 + additional);
            kani::cover!(off.as_u64() == adv_stream0 && off > acquired, "data up to exactly the stream limit accepted");
            kani::cover!(off < acquired, "retransmitted data costs nothing");
            kani::cover!(additional > 0 && other > acquired, "new data while the other stream is ahead");
        }
        assert!(fc.read_window_sync.latest_value().as_u64() == adv_stream0);
    } else {
        let n = vi(M);
        kani::assume(released.as_u64() + n.as_u64() <= acquired.as_u64());
        fc.release_window(n);
        let rel1 = released.as_u64() + n.as_u64();
        let adv = fc.read_window_sync.latest_value().as_u64();
        assert!(adv == (rel1 + s_window as u64).min(M));
        assert!(adv - rel1 <= s_window as u64);
        assert!(fc.released_connection_window.as_u64() == rel1);
        assert!(conn.acquired_window().as_u64() == conn_acquired0);
        kani::cover!(n.as_u64() > 0, "stream credit released");
    }
}

// C02 (blocking kind: stream credit). A reader parks until `watermark()` bytes are buffered. That is
// only safe if the peer can always send that much without any further read: whenever no
// MAX_STREAM_DATA update is pending after the application consumed `a` bytes, the credit the peer
// still holds beyond the consumed bytes (window - a, first window of the stream's life) must cover
// the watermark - otherwise reader and peer wait for each other forever (no timer is armed for this).
// The update threshold is the real IncrementalValueSync one (observed through transmission interest).
#[cfg_attr(kani, kani::proof)]
#[cfg_attr(kani, kani::unwind(2))]
fn verif_rx_watermark_reachable() {
    use crate::transmission::interest::Provider as _;
    let window: u32 = kani::any();
    let conn = IncomingConnectionFlowController::new(VarInt::from_u32(window), window);
    let mut fc = ReceiveStreamFlowController::new(conn.clone(), VarInt::from_u32(window), window);
    // the peer sent `a` bytes and the application consumed all of them
    let a: u32 = kani::any();
    kani::assume(a >= 1 && a <= window);
    assert!(fc.acquire_window_up_to(VarInt::from_u32(a), None).is_ok());
    fc.release_window(VarInt::from_u32(a));
    if !fc.read_window_sync.has_transmission_interest() {
        // no credit update is on its way: what the peer may still send must satisfy the reader
        let peer_credit = (window - a) as u64;
        assert!(fc.watermark() as u64 <= peer_credit);
        kani::cover!(a > 1, "several bytes consumed without triggering a MAX_STREAM_DATA");
    } else {
        kani::cover!(true, "consumption triggered a MAX_STREAM_DATA update");
    }
    core::mem::forget(fc);
    core::mem::forget(conn);
}

#[path = "/verif/harness/transport/rx_stream.rs"] mod rx_stream;

// ---- generated by tools/fixup.py: native replay entry ----
#[cfg(not(kani))]
#[test]
fn verif_replay() {
    kani::replay(&[
        ("verif_rx_stream_flow_step", verif_rx_stream_flow_step),
        ("verif_rx_watermark_reachable", verif_rx_watermark_reachable),
    ]);
}
