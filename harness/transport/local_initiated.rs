// C03-O3: streams are opened only within the largest MAX_STREAMS received (and the local
// concurrency limit); stale MAX_STREAMS frames are ignored.
use super::*;
#[cfg(not(kani))]
use crate::kani;
use s2n_quic_core::stream::StreamType;

#[derive(Debug)]
struct Lim(VarInt);
impl LocalLimits for Lim {
    fn as_varint(&self) -> VarInt {
        self.0
    }
}

fn vi(max: u64) -> VarInt {
    let v: u64 = kani::any();
    kani::assume(v <= max);
    VarInt::new(v).unwrap()
}

const M60: u64 = 1 << 60;

#[cfg_attr(kani, kani::proof)]
#[cfg_attr(kani, kani::unwind(3))]
fn verif_local_initiated_step() {
    let peer = vi(M60);
    let local = vi(M60);
    let opened = vi(M60);
    let closed = vi(M60);
    // invariant: closed <= opened <= peer limit; open count <= local limit
    kani::assume(closed <= opened && opened <= peer);
    kani::assume(opened.as_u64() - closed.as_u64() <= local.as_u64());
    let mut c: LocalInitiated<Lim, OpenNotifyUnidirectional> = LocalInitiated::new(peer, Lim(local));
    c.opened_streams = opened;
    c.closed_streams = closed;
    let mut max_seen = peer.as_u64();

    let op: u8 = kani::any();
    kani::assume(op < 3);
    match op {
        0 => {
            let v = vi((1 << 62) - 1);
            c.on_max_streams(&MaxStreams { stream_type: StreamType::Unidirectional, maximum_streams: v });
            if v.as_u64() > max_seen {
                max_seen = v.as_u64();
            }
            assert!(c.peer_cumulative_stream_limit.as_u64() == max_seen);
            kani::cover!(v.as_u64() < peer.as_u64(), "stale MAX_STREAMS ignored");
            kani::cover!(v.as_u64() > peer.as_u64(), "limit raised");
        }
        1 => {
            let waker = core::task::Waker::noop();
            let cx = Context::from_waker(waker);
            let mut token = open_token::Token::new();
            let r = c.poll_open_stream(&mut token, &cx);
            let room_peer = opened.as_u64() < max_seen;
            let room_local = opened.as_u64() - closed.as_u64() < local.as_u64();
            assert!(r.is_ready() == (room_peer && room_local));
            if r.is_ready() {
                // the caller now opens the stream: still within the peer's limit
                c.on_open_stream();
                assert!(c.total_open_stream_count().as_u64() <= max_seen);
                kani::cover!(c.total_open_stream_count().as_u64() == max_seen, "last permitted stream opened");
            } else {
                // blocked by the peer => STREAMS_BLOCKED is queued
                use crate::transmission::interest::Provider as _;
                assert!(c.has_transmission_interest() == !room_peer);
                kani::cover!(!room_peer, "blocked on the peer's limit");
                kani::cover!(room_peer && !room_local, "blocked on the local limit only");
            }
        }
        _ => {
            kani::assume(closed < opened);
            c.on_close_stream();
            assert!(c.closed_streams.as_u64() == closed.as_u64() + 1);
            assert!(c.total_open_stream_count() == opened);
            kani::cover!(true, "stream closed");
        }
    }
    // invariant preserved
    assert!(c.closed_streams <= c.opened_streams);
    assert!(c.opened_streams.as_u64() <= max_seen);
    assert!(c.peer_cumulative_stream_limit.as_u64() == max_seen);
    core::mem::forget(c);
}

// C02: credit events reach the wake-up of parked openers.
// Cut (Kani stub of the private LocalInitiated::wake_unblocked): any SmallVec<Waker> content ran out
// of memory under CBMC (20-25 GB, measured four times: counting wakers, no-op wakers, with and
// without the drain), so under Kani the waker list stays empty and wake_unblocked is replaced by a
// recording stub that notes the stream capacity visible at the moment it is called.  Decided on the
// real code: every event that turns "no capacity" into "capacity" calls wake_unblocked AFTER the new
// limit is in place.  Cut away: wake_unblocked's own body (drain, Waker::wake, token expiry).
// The native replay has no stubs: there one real no-op waker is parked and must have left the list.
#[cfg(kani)]
static mut WAKE_SEEN_CAPACITY: u64 = 0;

#[cfg(kani)]
fn stub_wake_unblocked<L: LocalLimits, OpenNotify: OpenNotifyBehavior>(this: &mut LocalInitiated<L, OpenNotify>) {
    let cap = this.available_stream_capacity().as_u64();
    unsafe {
        if cap > WAKE_SEEN_CAPACITY {
            WAKE_SEEN_CAPACITY = cap;
        }
    }
}

#[cfg_attr(kani, kani::proof)]
#[cfg_attr(kani, kani::unwind(3))]
#[cfg_attr(kani, kani::stub(LocalInitiated::wake_unblocked, stub_wake_unblocked))]
fn verif_local_initiated_credit_wakes() {
    let peer = vi(M60);
    let local = vi(M60);
    let opened = vi(M60);
    let closed = vi(M60);
    kani::assume(closed <= opened && opened <= peer);
    kani::assume(opened.as_u64() - closed.as_u64() <= local.as_u64());
    let mut c: LocalInitiated<Lim, OpenNotifyUnidirectional> = LocalInitiated::new(peer, Lim(local));
    c.opened_streams = opened;
    c.closed_streams = closed;
    // One task is parked. The capacity before the event is arbitrary: capacity > 0 with a task
    // still parked is reachable (an earlier credit woke another task that has not run yet).
    let cap_before = c.available_stream_capacity().as_u64();
    c.wakers.push(core::task::Waker::noop().clone());
    if kani::any() {
        let v = vi((1 << 62) - 1);
        c.on_max_streams(&MaxStreams { stream_type: StreamType::Unidirectional, maximum_streams: v });
    } else {
        kani::assume(closed < opened);
        c.on_close_stream();
    }
    let cap = c.available_stream_capacity().as_u64();
    if cap > cap_before {
        // the parked opener must have been released with the new capacity already visible
        #[cfg(kani)]
        assert!(unsafe { WAKE_SEEN_CAPACITY } == cap);
        #[cfg(not(kani))]
        assert!(c.wakers.is_empty());
        kani::cover!(c.peer_cumulative_stream_limit > peer, "released by MAX_STREAMS");
        kani::cover!(c.closed_streams > closed, "released by a closing stream");
        kani::cover!(cap_before >= 1, "credit while an earlier wake-up is still unconsumed");
    } else {
        kani::cover!(c.peer_cumulative_stream_limit > peer, "peer credit arrived but the local limit still blocks");
    }
    core::mem::forget(c);
}

// ---- generated by tools/fixup.py: native replay entry ----
#[cfg(not(kani))]
#[test]
fn verif_replay() {
    kani::replay(&[
        ("verif_local_initiated_step", verif_local_initiated_step),
        ("verif_local_initiated_credit_wakes", verif_local_initiated_credit_wakes),
    ]);
}
