// C03-O6 / C14: the flow-control windows a new stream starts with are the ones the transport
// parameters declare FOR THAT STREAM: which of initial_max_stream_data_{bidi_local,bidi_remote,uni}
// applies depends on who opened the stream, seen from the endpoint that SENT the parameter
// (RFC 9000 18.2). Decided on the real StreamManagerState::insert_stream with a recording stream
// type; the stream container (intrusive RB-tree + interest lists) is cut by a stub.
use super::*;
#[cfg(not(kani))]
use crate::kani;
use crate::stream::{
    incoming_connection_flow_controller::IncomingConnectionFlowController,
    outgoing_connection_flow_controller::OutgoingConnectionFlowController,
    stream_events::StreamEvents,
    stream_impl::StreamConfig,
    stream_interests::{StreamInterestProvider, StreamInterests},
    StreamError,
};
use s2n_quic_core::{
    ack, endpoint,
    frame::{stream::StreamRef, MaxStreamData, ResetStream, StopSending, StreamDataBlocked},
    transport::parameters::InitialStreamLimits,
};

/// what insert_stream configured the stream with: (send window, receive window, desired window)
static mut RECORDED: Option<(u64, u64, u32)> = None;
/// the connection-level send credit the stream was handed
static mut CONN_RECORDED: Option<u64> = None;
/// how many streams were created, and the id of the last one
static mut CREATED: (u64, Option<StreamId>) = (0, None);

#[derive(Debug)]
struct RecStream {
    id: StreamId,
}

impl StreamInterestProvider for RecStream {
    fn stream_interests(&self, _interests: &mut StreamInterests) {}
}

impl timer::Provider for RecStream {
    fn timers<Q: timer::Query>(&self, _query: &mut Q) -> timer::Result {
        Ok(())
    }
}

impl StreamTrait for RecStream {
    fn new(config: StreamConfig) -> Self {
        unsafe {
            RECORDED = Some((
                config.initial_send_window.as_u64(),
                config.initial_receive_window.as_u64(),
                config.desired_flow_control_window,
            ));
            CREATED = (CREATED.0 + 1, Some(config.stream_id));
            CONN_RECORDED = Some(config.outgoing_connection_flow_controller.available_window().as_u64());
        }
        let id = config.stream_id;
        core::mem::forget(config);
        Self { id }
    }
    fn stream_id(&self) -> StreamId {
        self.id
    }
    fn on_data(&mut self, _: &StreamRef, _: &mut StreamEvents) -> Result<(), transport::Error> {
        Ok(())
    }
    fn on_stream_data_blocked(&mut self, _: &StreamDataBlocked, _: &mut StreamEvents) -> Result<(), transport::Error> {
        Ok(())
    }
    fn on_reset(&mut self, _: &ResetStream, _: &mut StreamEvents) -> Result<(), transport::Error> {
        Ok(())
    }
    fn on_max_stream_data(&mut self, _: &MaxStreamData, _: &mut StreamEvents) -> Result<(), transport::Error> {
        Ok(())
    }
    fn on_stop_sending(&mut self, _: &StopSending, _: &mut StreamEvents) -> Result<(), transport::Error> {
        Ok(())
    }
    fn on_packet_ack<A: ack::Set>(&mut self, _: &A, _: &mut StreamEvents) {}
    fn on_packet_loss<A: ack::Set>(&mut self, _: &A, _: &mut StreamEvents) {}
    fn update_blocked_sync_period(&mut self, _: Duration) {}
    fn on_timeout(&mut self, _: Timestamp) {}
    fn on_internal_reset(&mut self, _: StreamError, _: &mut StreamEvents) {}
    fn on_flush(&mut self, _: StreamError, _: &mut StreamEvents) {}
    fn on_transmit<W: WriteContext>(&mut self, _: &mut W) -> Result<(), OnTransmitError> {
        Ok(())
    }
    fn on_connection_window_available(&mut self) {}
    fn poll_request(&mut self, _: &mut ops::Request, _: Option<&Context>) -> Result<ops::Response, StreamError> {
        Ok(ops::Response::default())
    }
}

// Cut: the container insert (Rc<StreamNode>, intrusive RB-tree and six interest lists).
fn stub_container_insert<S: StreamTrait>(_this: &mut StreamContainer<S>, stream: S) {
    core::mem::forget(stream);
}

fn vi32() -> VarInt {
    let v: u32 = kani::any();
    VarInt::from_u32(v)
}

#[cfg_attr(kani, kani::proof)]
#[cfg_attr(kani, kani::unwind(3))]
#[cfg_attr(kani, kani::stub(StreamContainer::insert_stream, stub_container_insert))]
fn verif_manager_insert_stream_windows() {
    let local = if kani::any() { endpoint::Type::Client } else { endpoint::Type::Server };
    // what WE declared in our transport parameters, and what the PEER declared in theirs
    let ours = InitialStreamLimits { max_data_bidi_local: vi32(), max_data_bidi_remote: vi32(), max_data_uni: vi32() };
    let theirs = InitialStreamLimits { max_data_bidi_local: vi32(), max_data_bidi_remote: vi32(), max_data_uni: vi32() };
    // connection-level limits: ours (what the peer may send) and theirs (what we may send)
    let our_max_data: u32 = kani::any();
    let their_max_data: u32 = kani::any();
    let initial_local_limits = InitialFlowControlLimits {
        stream_limits: ours,
        max_data: VarInt::from_u32(our_max_data),
        ..Default::default()
    };
    let initial_peer_limits = InitialFlowControlLimits {
        stream_limits: theirs,
        max_data: VarInt::from_u32(their_max_data),
        ..Default::default()
    };
    let limits = connection::Limits::default();
    // the REAL constructor of the stream manager
    let mut manager: AbstractStreamManager<RecStream> = <AbstractStreamManager<RecStream> as stream::Manager>::new(
        &limits,
        local,
        initial_local_limits,
        initial_peer_limits,
        Duration::from_millis(10),
    );
    let state = &mut manager.inner;
    let initiator = if kani::any() { endpoint::Type::Client } else { endpoint::Type::Server };
    let ty = if kani::any() { StreamType::Bidirectional } else { StreamType::Unidirectional };
    let n: u64 = kani::any();
    kani::assume(n < (1 << 60));
    let id = StreamId::nth(initiator, ty, n).unwrap();
    state.insert_stream(id);
    let (send, recv, desired) = unsafe { RECORDED }.unwrap();
    let opened_by_us = initiator == local;
    match ty {
        StreamType::Bidirectional => {
            if opened_by_us {
                // the peer's limit for streams opened by the OTHER side; our limit for streams we open
                assert!(send == theirs.max_data_bidi_remote.as_u64());
                assert!(recv == ours.max_data_bidi_local.as_u64());
            } else {
                assert!(send == theirs.max_data_bidi_local.as_u64());
                assert!(recv == ours.max_data_bidi_remote.as_u64());
            }
        }
        StreamType::Unidirectional => {
            if opened_by_us {
                // we are the only sender
                assert!(send == theirs.max_data_uni.as_u64());
            } else {
                assert!(recv == ours.max_data_uni.as_u64());
            }
        }
    }
    // the window we keep open is the one we declared
    assert!(desired as u64 == recv);
    // connection level: we may send what THEY declared, they may send what WE declared
    let conn_send = unsafe { CONN_RECORDED }.unwrap();
    assert!(conn_send == their_max_data as u64);
    // receive side, observed through the API: exactly our_max_data bytes are admitted
    let mut rx = state.incoming_connection_flow_controller.clone();
    assert!(rx.acquire_window(VarInt::from_u32(our_max_data)).is_ok());
    assert!(rx.acquire_window(VarInt::from_u8(1)).is_err());
    kani::cover!(our_max_data != their_max_data, "asymmetric connection limits");
    kani::cover!(ty == StreamType::Bidirectional && opened_by_us && theirs.max_data_bidi_local != theirs.max_data_bidi_remote, "locally opened bidi stream, asymmetric peer limits");
    kani::cover!(ty == StreamType::Bidirectional && !opened_by_us && theirs.max_data_bidi_local != theirs.max_data_bidi_remote, "peer-opened bidi stream, asymmetric peer limits");
    kani::cover!(ty == StreamType::Unidirectional && opened_by_us, "locally opened uni stream");
    core::mem::forget(manager);
}

// C04 / C12: which streams a frame may refer to. One incoming frame naming an arbitrary stream id
// (either initiator, either type, index <= 2) arrives at a client or server with arbitrary
// declared stream limits, `k` locally opened streams of that type and no peer-opened ones:
//  * a peer-initiated id beyond OUR limit -> STREAM_LIMIT_ERROR and nothing is created;
//  * otherwise that stream AND all lower-numbered ones of its type are created, exactly once
//    (a second frame for the same id creates nothing: ids are never reused);
//  * a locally-initiated id we have not opened yet -> STREAM_STATE_ERROR; one we did open is fine.
#[cfg_attr(kani, kani::proof)]
#[cfg_attr(kani, kani::unwind(5))]
#[cfg_attr(kani, kani::stub(StreamContainer::insert_stream, stub_container_insert))]
fn verif_manager_open_stream_if_necessary() {
    let local = if kani::any() { endpoint::Type::Client } else { endpoint::Type::Server };
    let our_bidi: u64 = kani::any();
    let our_uni: u64 = kani::any();
    kani::assume(our_bidi <= 1 << 60 && our_uni <= 1 << 60);
    let initial_local_limits = InitialFlowControlLimits {
        max_open_remote_bidirectional_streams: VarInt::new(our_bidi).unwrap(),
        max_open_remote_unidirectional_streams: VarInt::new(our_uni).unwrap(),
        ..Default::default()
    };
    let initial_peer_limits = InitialFlowControlLimits::default();
    let limits = connection::Limits::default();
    let mut manager: AbstractStreamManager<RecStream> = <AbstractStreamManager<RecStream> as stream::Manager>::new(
        &limits,
        local,
        initial_local_limits,
        initial_peer_limits,
        Duration::from_millis(10),
    );
    let state = &mut manager.inner;
    let initiator = if kani::any() { endpoint::Type::Client } else { endpoint::Type::Server };
    let ty = if kani::any() { StreamType::Bidirectional } else { StreamType::Unidirectional };
    let idx: u64 = kani::any();
    kani::assume(idx <= 2);
    let id = StreamId::nth(initiator, ty, idx).unwrap();
    // we have opened k streams of that type ourselves (what AbstractStreamManager records)
    let k: u64 = kani::any();
    kani::assume(k <= 3);
    *state.next_stream_ids.get_mut(local, ty) = StreamId::nth(local, ty, k);
    unsafe { CREATED = (0, None) };

    let r = state.open_stream_if_necessary(id);
    let created = unsafe { CREATED };
    if initiator != local {
        let our_limit = if ty == StreamType::Bidirectional { our_bidi } else { our_uni };
        if idx >= our_limit {
            assert!(matches!(r, Err(e) if e.code == transport::Error::STREAM_LIMIT_ERROR.code));
            assert!(created.0 == 0);
            assert!(*state.next_stream_ids.get_mut(initiator, ty) == StreamId::nth(initiator, ty, 0));
            kani::cover!(idx == our_limit, "first stream beyond our limit rejected");
        } else {
            assert!(r.is_ok());
            // the stream and every lower-numbered one of its type
            assert!(created.0 == idx + 1);
            assert!(created.1 == Some(id));
            assert!(*state.next_stream_ids.get_mut(initiator, ty) == StreamId::nth(initiator, ty, idx + 1));
            // a later frame for the same (or a lower) stream creates nothing
            assert!(state.open_stream_if_necessary(id).is_ok());
            assert!(unsafe { CREATED }.0 == idx + 1);
            kani::cover!(idx == 2, "two lower-numbered streams created implicitly");
        }
        // our own id space is untouched
        assert!(*state.next_stream_ids.get_mut(local, ty) == StreamId::nth(local, ty, k));
    } else {
        assert!(created.0 == 0);
        if idx >= k {
            assert!(matches!(r, Err(e) if e.code == transport::Error::STREAM_STATE_ERROR.code));
            kani::cover!(idx == k, "frame for the next stream we have not opened yet");
        } else {
            assert!(r.is_ok());
            kani::cover!(true, "frame for a stream we opened");
        }
    }
    core::mem::forget(manager);
}

// ---- generated by tools/fixup.py: native replay entry ----
#[cfg(not(kani))]
#[test]
fn verif_replay() {
    kani::replay(&[
        ("verif_manager_insert_stream_windows", verif_manager_insert_stream_windows),
        ("verif_manager_open_stream_if_necessary", verif_manager_open_stream_if_necessary),
    ]);
}
