// C12-O2: the FIN bookkeeping of a send stream only moves forward:
// Pending -> InFlight -> (Lost -> InFlight)* -> Acknowledged, and Acknowledged is final.
use super::*;
#[cfg(not(kani))]
use crate::kani;
use crate::verif_support::pn;
use s2n_quic_core::packet::number::PacketNumberRange;

fn any_fin() -> (FinState, u8, u64) {
    let k: u8 = kani::any();
    kani::assume(k < 4);
    let p: u64 = kani::any();
    kani::assume(p < 1000);
    let s = match k {
        0 => FinState::Pending,
        1 => FinState::InFlight(pn(p)),
        2 => FinState::Lost,
        _ => FinState::Acknowledged,
    };
    (s, k, p)
}

#[cfg_attr(kani, kani::proof)]
#[cfg_attr(kani, kani::unwind(2))]
fn verif_fin_state_step() {
    let (mut s, k, p) = any_fin();
    let lo: u64 = kani::any();
    let hi: u64 = kani::any();
    kani::assume(lo <= hi && hi < 1000);
    let set = PacketNumberRange::new(pn(lo), pn(hi));
    let hit = lo <= p && p <= hi;
    let op: u8 = kani::any();
    kani::assume(op < 3);
    match op {
        0 => {
            s.on_packet_ack(&set);
            if k == 1 && hit {
                assert!(s == FinState::Acknowledged);
                kani::cover!(true, "FIN acknowledged");
            } else {
                assert!(s == any_same(k, p));
            }
        }
        1 => {
            let lost = s.on_packet_loss(&set);
            if k == 1 && hit {
                assert!(lost && s == FinState::Lost);
                kani::cover!(true, "FIN lost");
            } else {
                assert!(!lost && s == any_same(k, p));
            }
        }
        _ => {
            let q: u64 = kani::any();
            kani::assume(q < 1000);
            s.on_transmit(pn(q));
            if k == 0 || k == 2 {
                assert!(s == FinState::InFlight(pn(q)));
                kani::cover!(k == 2, "lost FIN retransmitted");
            } else {
                // an in-flight or acknowledged FIN is not re-tracked
                assert!(s == any_same(k, p));
            }
        }
    }
    // Acknowledged is absorbing
    if k == 3 {
        assert!(s.is_acknowledged());
    }
    // the transmission gate: only a pending (unblocked) or lost FIN may be (re)sent
    let st = State::Finishing(s);
    let blocked: bool = kani::any();
    let can = st.can_transmit_fin(transmission::Constraint::None, blocked);
    assert!(can == (s == FinState::Lost || (s == FinState::Pending && !blocked)));
    assert!(!State::Finished.can_transmit_fin(transmission::Constraint::None, false));
    assert!(!State::Sending.can_transmit_fin(transmission::Constraint::None, false));
}

fn any_same(k: u8, p: u64) -> FinState {
    match k {
        0 => FinState::Pending,
        1 => FinState::InFlight(pn(p)),
        2 => FinState::Lost,
        _ => FinState::Acknowledged,
    }
}

// C12: DataSender::stop_sending (what a stream reset does to the data sender) from EVERY sender
// state, with a range recorded as lost and one as pending: unless everything including the FIN had
// already been acknowledged (Finished), the sender ends up Cancelled with nothing left to
// (re)transmit - no lost range, no pending range, no buffered data, flow controller told to stop -
// so no STREAM frame can follow the RESET_STREAM.
#[derive(Default)]
struct RecFlow {
    finished: bool,
}

impl OutgoingDataFlowController for RecFlow {
    fn acquire_flow_control_window(&mut self, end_offset: VarInt) -> VarInt {
        end_offset
    }
    fn is_blocked(&self) -> bool {
        false
    }
    fn clear_blocked(&mut self) {}
    fn finish(&mut self) {
        self.finished = true;
    }
}

#[cfg(kani)]
static VERIF_LOC: &core::panic::Location<'static> = core::panic::Location::caller();
#[cfg(kani)]
struct StubLoc<'a>(core::marker::PhantomData<&'a ()>);
#[cfg(kani)]
impl<'a> StubLoc<'a> {
    fn caller() -> &'static core::panic::Location<'static> {
        VERIF_LOC
    }
}

#[cfg_attr(kani, kani::proof)]
#[cfg_attr(kani, kani::unwind(10))]
#[cfg_attr(kani, kani::stub(core::panic::Location::caller, StubLoc::caller))]
fn verif_data_sender_stop_sending() {
    use crate::transmission::interest::Provider as _;
    let mut ds: DataSender<RecFlow, writer::Stream> = DataSender::new(RecFlow::default(), 4096);
    let k: u8 = kani::any();
    kani::assume(k < 7);
    let (fin, _, _) = any_fin();
    ds.state = match k {
        0 => State::Sending,
        1 => State::Finished,
        2 => State::Cancelled(StreamError::invalid_stream()),
        _ => State::Finishing(fin),
    };
    // stream data [0,10) was sent and declared lost, [10,20) is still unacknowledged
    let was_finished = ds.state == State::Finished;
    if !was_finished {
        ds.lost.insert(VarInt::from_u8(0)..VarInt::from_u8(10)).unwrap();
        ds.pending.insert(VarInt::from_u8(0)..VarInt::from_u8(20)).unwrap();
    }
    let error = StreamError::stream_reset(VarInt::from_u8(7).into());
    ds.stop_sending(error);
    if was_finished {
        assert!(ds.state == State::Finished);
        kani::cover!(true, "already finished: nothing to cancel");
    } else {
        assert!(matches!(ds.state, State::Cancelled(_)));
        assert!(ds.lost.is_empty());
        assert!(ds.pending.is_empty());
        assert!(ds.is_empty());
        assert!(ds.flow_controller().finished);
        assert!(!ds.has_transmission_interest());
        kani::cover!(k >= 3 && matches!(fin, FinState::Acknowledged), "FIN already acknowledged while data was lost");
        kani::cover!(k == 0, "reset while sending");
    }
    core::mem::forget(ds);
}

// C12 / C10: when may the FIN be (re)sent on its own? A FIN that was never sent announces the
// final size for the first time - it is NEW information and needs the permissions new data needs
// (not flow-control blocked, transmission of new data allowed); only a FIN that was sent before and
// declared lost may go out when the connection is restricted to retransmissions. In every other
// sender state no separate FIN is written.
#[cfg_attr(kani, kani::proof)]
#[cfg_attr(kani, kani::unwind(2))]
fn verif_data_sender_can_transmit_fin() {
    let (fin, k, _) = any_fin();
    let which: u8 = kani::any();
    kani::assume(which < 3);
    let state = match which {
        0 => State::Sending,
        1 => State::Finished,
        _ => State::Finishing(fin),
    };
    let c: u8 = kani::any();
    kani::assume(c < 4);
    let constraint = match c {
        0 => transmission::Constraint::None,
        1 => transmission::Constraint::CongestionLimited,
        2 => transmission::Constraint::RetransmissionOnly,
        _ => transmission::Constraint::AmplificationLimited,
    };
    let is_blocked: bool = kani::any();
    let can = state.can_transmit_fin(constraint, is_blocked);
    let new_data_allowed = c == 0;
    let retransmission_allowed = c == 0 || c == 2;
    if which != 2 {
        assert!(!can);
    } else {
        match k {
            // Pending: never sent
            0 => assert!(can == (new_data_allowed && !is_blocked)),
            // InFlight / Acknowledged: nothing to send
            1 | 3 => assert!(!can),
            // Lost: a retransmission (its credit was acquired when it was first sent)
            _ => assert!(can == retransmission_allowed),
        }
    }
    kani::cover!(which == 2 && k == 0 && c == 2 && !can, "never-sent FIN held back while only retransmissions are allowed");
    kani::cover!(which == 2 && k == 2 && c == 2 && can, "lost FIN retransmitted");
}

// ---- generated by tools/fixup.py: native replay entry ----
#[cfg(not(kani))]
#[test]
fn verif_replay() {
    kani::replay(&[
        ("verif_fin_state_step", verif_fin_state_step),
        ("verif_data_sender_stop_sending", verif_data_sender_stop_sending),
        ("verif_data_sender_can_transmit_fin", verif_data_sender_can_transmit_fin),
    ]);
}
