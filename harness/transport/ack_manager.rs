// C08-O3a: AckManager promptness over two processed packets (real ack::Ranges): an ack-eliciting
// packet that arrives out of order, leaves a gap, is CE-marked or carries a path challenge makes an
// ACK due immediately; an in-order one arms the delay timer at most max_ack_delay ahead, and the
// timer is never pushed back by later packets. Packet numbers are enumerated concretely (the range
// set is a VecDeque: symbolic numbers are out of reach); flags, ECN marks and times are symbolic.
use super::*;
#[cfg(not(kani))]
use crate::kani;
use crate::transmission::interest::Provider as _;
use s2n_quic_core::{
    connection, event::testing::Publisher, frame::ack_elicitation::AckElicitation,
    inet::{DatagramInfo, ExplicitCongestionNotification},
    time::{timer::Provider as _, Clock as _, NoopClock},
};
use core::time::Duration;

fn pn(v: u64) -> PacketNumber {
    PacketNumberSpace::ApplicationData.new_packet_number(VarInt::new(v).unwrap())
}

fn two_packets(a: u64, b: u64) {
    let mut mgr = AckManager::new(PacketNumberSpace::ApplicationData, ack::Settings::default());
    let mut publisher = Publisher::no_snapshot();
    let t0 = NoopClock.get_time();
    let e1: bool = kani::any();
    let e2: bool = kani::any();
    let ce2: bool = kani::any();
    let challenge2: bool = kani::any();
    let dt: u16 = kani::any();
    // the second packet arrives before the first one's delayed ACK is due (25 ms default)
    kani::assume(dt < 20_000);
    let mk = |ts: Timestamp, ce: bool| DatagramInfo {
        timestamp: ts,
        payload_len: 1200,
        ecn: if ce { ExplicitCongestionNotification::Ce } else { ExplicitCongestionNotification::NotEct },
        destination_connection_id: connection::LocalId::TEST_ID,
        destination_connection_id_classification: connection::id::Classification::Local,
        source_connection_id: None,
    };
    let ip = [0u8; 4];
    let cid = [0u8; 1];
    let mkpath = || s2n_quic_core::event::builder::Path {
        local_addr: s2n_quic_core::event::builder::SocketAddress::IpV4 { ip: &ip, port: 0 },
        local_cid: s2n_quic_core::event::builder::ConnectionId { bytes: &cid },
        remote_addr: s2n_quic_core::event::builder::SocketAddress::IpV4 { ip: &ip, port: 0 },
        remote_cid: s2n_quic_core::event::builder::ConnectionId { bytes: &cid },
        id: 0,
        is_active: true,
    };
    let d1 = mk(t0, false);
    let t1 = t0 + Duration::from_micros(dt as u64);
    let d2 = mk(t1, ce2);
    let mut p1 = ProcessedPacket::new(pn(a), &d1);
    if e1 {
        p1.ack_elicitation = AckElicitation::Eliciting;
    }
    mgr.on_processed_packet(&p1, mkpath(), &mut publisher);
    // the very first packet is in order: an eliciting one arms the delay timer, nothing is due yet
    assert!(!mgr.has_transmission_interest());
    assert!(mgr.ack_delay_timer.is_armed() == e1);
    let deadline1 = mgr.ack_delay_timer.next_expiration();

    let mut p2 = ProcessedPacket::new(pn(b), &d2);
    if e2 {
        p2.ack_elicitation = AckElicitation::Eliciting;
    }
    p2.path_challenge_on_active_path = challenge2;
    mgr.on_processed_packet(&p2, mkpath(), &mut publisher);

    let in_order = b == a + 1;
    let active = mgr.has_transmission_interest();
    if e2 && (!in_order || ce2 || challenge2) {
        // RFC 9000 13.2.1: out of order / gap / CE => acknowledge immediately
        assert!(active);
    }
    if active {
        // a due ACK is not subject to congestion control (RFC 9002 7: ACK-only packets are not
        // congestion controlled): it can go out while the sender is congestion limited or may only
        // retransmit - but never past the anti-amplification limit
        assert!(mgr.can_transmit(transmission::Constraint::None));
        assert!(mgr.can_transmit(transmission::Constraint::CongestionLimited));
        assert!(mgr.can_transmit(transmission::Constraint::RetransmissionOnly));
        assert!(!mgr.can_transmit(transmission::Constraint::AmplificationLimited));
    }
    if !active {
        // nothing due yet: any ack-eliciting packet seen so far has an armed deadline, and the first
        // deadline was not pushed back by the second packet
        if e1 || e2 {
            assert!(mgr.ack_delay_timer.is_armed());
        }
        if e1 {
            assert!(mgr.ack_delay_timer.next_expiration() == deadline1);
        }
    }
    if !e1 && !e2 {
        // non-eliciting packets never cause an ACK on their own
        assert!(!active && !mgr.ack_delay_timer.is_armed());
    }
    // both numbers are remembered for acknowledgement
    assert!(mgr.ack_ranges.max_value() == Some(pn(core::cmp::max(a, b))));
    assert!(mgr.ack_ranges.min_value() == Some(pn(core::cmp::min(a, b))));
    core::mem::forget(mgr);
    core::mem::forget(publisher);
}

#[cfg_attr(kani, kani::proof)]
#[cfg_attr(kani, kani::unwind(6))]
fn verif_ack_manager_two_packets() {
    two_packets(100, 101);
    two_packets(100, 102);
    two_packets(100, 99);
    two_packets(100, 97);
    kani::cover!(true, "all arrival orders done");
}

// after an ACK has been sent, the number it acknowledged up to is remembered as the base for
// expanding the peer's truncated packet numbers — whether or not the carrying packet was itself
// ack-eliciting — and the delayed-ACK timer is cleared.
fn transmit_after(a: u64, b: u64) {
    let mut mgr = AckManager::new(PacketNumberSpace::ApplicationData, ack::Settings::default());
    let mut publisher = Publisher::no_snapshot();
    let t0 = NoopClock.get_time();
    let d = DatagramInfo {
        timestamp: t0,
        payload_len: 1200,
        ecn: ExplicitCongestionNotification::NotEct,
        destination_connection_id: connection::LocalId::TEST_ID,
        destination_connection_id_classification: connection::id::Classification::Local,
        source_connection_id: None,
    };
    let ip = [0u8; 4];
    let cid = [0u8; 1];
    let mkpath = || s2n_quic_core::event::builder::Path {
        local_addr: s2n_quic_core::event::builder::SocketAddress::IpV4 { ip: &ip, port: 0 },
        local_cid: s2n_quic_core::event::builder::ConnectionId { bytes: &cid },
        remote_addr: s2n_quic_core::event::builder::SocketAddress::IpV4 { ip: &ip, port: 0 },
        remote_cid: s2n_quic_core::event::builder::ConnectionId { bytes: &cid },
        id: 0,
        is_active: true,
    };
    let mut p1 = ProcessedPacket::new(pn(a), &d);
    p1.ack_elicitation = AckElicitation::Eliciting;
    mgr.on_processed_packet(&p1, mkpath(), &mut publisher);
    let mut p2 = ProcessedPacket::new(pn(b), &d);
    p2.ack_elicitation = AckElicitation::Eliciting;
    mgr.on_processed_packet(&p2, mkpath(), &mut publisher);
    // out of order / gap: an ACK is due now
    assert!(mgr.has_transmission_interest());
    let mut ctx = crate::verif_support::StubCtx::new(64);
    // the carrying packet may or may not already hold ack-eliciting frames
    ctx.eliciting = kani::any();
    let c: u8 = kani::any();
    ctx.constraint = match c % 3 {
        0 => transmission::Constraint::None,
        1 => transmission::Constraint::CongestionLimited,
        _ => transmission::Constraint::RetransmissionOnly,
    };
    let wrote = mgr.on_transmit(&mut ctx);
    assert!(wrote);
    // the ACK frame names exactly the received numbers: largest = max(a, b)
    assert!(ctx.last_frame[0] == 0x02 || ctx.last_frame[0] == 0x03);
    assert!(ctx.last_frame[1] as u64 == core::cmp::max(a, b));
    kani::cover!(!ctx.eliciting, "ACK carried by a packet that is not ack-eliciting");
    kani::cover!(ctx.eliciting, "ACK carried by an ack-eliciting packet");
    mgr.on_transmit_complete(&mut ctx);
    assert!(mgr.largest_received_packet_number_acked() == pn(core::cmp::max(a, b)));
    assert!(!mgr.ack_delay_timer.is_armed());
    assert!(!mgr.has_transmission_interest());
    core::mem::forget(mgr);
    core::mem::forget(publisher);
}

#[cfg_attr(kani, kani::proof)]
#[cfg_attr(kani, kani::unwind(6))]
fn verif_ack_manager_transmit() {
    transmit_after(40, 42);
    transmit_after(40, 38);
    kani::cover!(true, "ACK sent and completed");
}

// ACK-of-ACK bookkeeping (RFC 9000 13.2.4): packets 40 and 42 are acknowledged in an ack-eliciting
// packet, 44 arrives afterwards. When the peer acknowledges that packet, exactly the numbers the
// ACK frame covered stop being tracked (nothing received later is forgotten); when the packet is
// declared lost instead, everything stays tracked and an ACK is due again.
fn ack_of_ack(lost: bool) {
    let mut mgr = AckManager::new(PacketNumberSpace::ApplicationData, ack::Settings::default());
    let mut publisher = Publisher::no_snapshot();
    let t0 = NoopClock.get_time();
    let d = DatagramInfo {
        timestamp: t0,
        payload_len: 1200,
        ecn: ExplicitCongestionNotification::NotEct,
        destination_connection_id: connection::LocalId::TEST_ID,
        destination_connection_id_classification: connection::id::Classification::Local,
        source_connection_id: None,
    };
    let ip = [0u8; 4];
    let cid = [0u8; 1];
    let mkpath = || s2n_quic_core::event::builder::Path {
        local_addr: s2n_quic_core::event::builder::SocketAddress::IpV4 { ip: &ip, port: 0 },
        local_cid: s2n_quic_core::event::builder::ConnectionId { bytes: &cid },
        remote_addr: s2n_quic_core::event::builder::SocketAddress::IpV4 { ip: &ip, port: 0 },
        remote_cid: s2n_quic_core::event::builder::ConnectionId { bytes: &cid },
        id: 0,
        is_active: true,
    };
    let mut feed = |mgr: &mut AckManager, n: u64, publisher: &mut Publisher| {
        let mut p = ProcessedPacket::new(pn(n), &d);
        p.ack_elicitation = AckElicitation::Eliciting;
        mgr.on_processed_packet(&p, mkpath(), publisher);
    };
    feed(&mut mgr, 40, &mut publisher);
    feed(&mut mgr, 42, &mut publisher);
    let mut ctx = crate::verif_support::StubCtx::new(64);
    ctx.eliciting = true; // the packet carrying the ACK also carries ack-eliciting frames
    assert!(mgr.on_transmit(&mut ctx));
    mgr.on_transmit_complete(&mut ctx);
    // the third packet: ack-eliciting or not
    {
        let mut p = ProcessedPacket::new(pn(44), &d);
        if kani::any() {
            p.ack_elicitation = AckElicitation::Eliciting;
        }
        mgr.on_processed_packet(&p, mkpath(), &mut publisher);
    }
    assert!(mgr.ack_ranges.count() == 3);
    let carrier = ctx.pn;
    if lost {
        mgr.on_packet_loss(&carrier);
        // nothing is forgotten and the ACK goes out again
        assert!(mgr.ack_ranges.count() == 3);
        assert!(mgr.ack_ranges.contains(&pn(40)) && mgr.ack_ranges.contains(&pn(42)) && mgr.ack_ranges.contains(&pn(44)));
        assert!(mgr.has_transmission_interest());
    } else {
        mgr.on_packet_ack(t0, &carrier);
        // the peer has seen our ACK up to 42: those numbers need not be reported again,
        // the later 44 is still owed
        assert!(!mgr.ack_ranges.contains(&pn(40)) && !mgr.ack_ranges.contains(&pn(42)));
        assert!(mgr.ack_ranges.contains(&pn(44)));
        assert!(mgr.ack_ranges.count() == 1);
        assert!(mgr.largest_received_packet_number_acked() == pn(42));
    }
    core::mem::forget(mgr);
    core::mem::forget(publisher);
}

#[cfg_attr(kani, kani::proof)]
#[cfg_attr(kani, kani::unwind(6))]
fn verif_ack_manager_ack_of_ack() {
    let lost: bool = kani::any();
    ack_of_ack(lost);
    kani::cover!(lost, "ACK carrier lost");
    kani::cover!(!lost, "ACK carrier acknowledged");
}

// thorough: THREE processed packets (concrete numbers, symbolic elicitation flags): what is
// remembered for acknowledgement is exactly the set of numbers processed - nothing else, each once,
// coalesced into the right number of ranges - and the third packet's promptness rule.
fn three_packets(a: u64, b: u64, c: u64, expect_ranges: usize) {
    let mut mgr = AckManager::new(PacketNumberSpace::ApplicationData, ack::Settings::default());
    let mut publisher = Publisher::no_snapshot();
    let t0 = NoopClock.get_time();
    let d = DatagramInfo {
        timestamp: t0,
        payload_len: 1200,
        ecn: ExplicitCongestionNotification::NotEct,
        destination_connection_id: connection::LocalId::TEST_ID,
        destination_connection_id_classification: connection::id::Classification::Local,
        source_connection_id: None,
    };
    let ip = [0u8; 4];
    let cid = [0u8; 1];
    let mkpath = || s2n_quic_core::event::builder::Path {
        local_addr: s2n_quic_core::event::builder::SocketAddress::IpV4 { ip: &ip, port: 0 },
        local_cid: s2n_quic_core::event::builder::ConnectionId { bytes: &cid },
        remote_addr: s2n_quic_core::event::builder::SocketAddress::IpV4 { ip: &ip, port: 0 },
        remote_cid: s2n_quic_core::event::builder::ConnectionId { bytes: &cid },
        id: 0,
        is_active: true,
    };
    let e: [bool; 3] = kani::any();
    let nums = [a, b, c];
    let mut i = 0;
    while i < 3 {
        let mut p = ProcessedPacket::new(pn(nums[i]), &d);
        if e[i] {
            p.ack_elicitation = AckElicitation::Eliciting;
        }
        mgr.on_processed_packet(&p, mkpath(), &mut publisher);
        i += 1;
    }
    // exactly the processed numbers
    assert!(mgr.ack_ranges.count() == 3);
    assert!(mgr.ack_ranges.interval_len() == expect_ranges);
    assert!(mgr.ack_ranges.contains(&pn(a)) && mgr.ack_ranges.contains(&pn(b)) && mgr.ack_ranges.contains(&pn(c)));
    let lo = core::cmp::min(a, core::cmp::min(b, c));
    let hi = core::cmp::max(a, core::cmp::max(b, c));
    assert!(mgr.ack_ranges.min_value() == Some(pn(lo)) && mgr.ack_ranges.max_value() == Some(pn(hi)));
    // RFC 9000 13.2.1: the third packet is ack-eliciting and not the direct successor of the
    // largest number processed before it => an ACK is due at once
    let prev_max = core::cmp::max(a, b);
    if e[2] && c != prev_max + 1 {
        assert!(mgr.has_transmission_interest());
    }
    if !e[0] && !e[1] && !e[2] {
        assert!(!mgr.has_transmission_interest() && !mgr.ack_delay_timer.is_armed());
    }
    core::mem::forget(mgr);
    core::mem::forget(publisher);
}

#[cfg_attr(kani, kani::proof)]
#[cfg_attr(kani, kani::unwind(6))]
fn verif_ack_manager_three_packets() {
    three_packets(100, 101, 102, 1);
    three_packets(100, 102, 101, 1);
    three_packets(100, 104, 102, 3);
    three_packets(100, 101, 98, 2);
    kani::cover!(true, "all three-packet orders done");
}

// ---- generated by tools/fixup.py: native replay entry ----
#[cfg(not(kani))]
#[test]
fn verif_replay() {
    kani::replay(&[
        ("verif_ack_manager_two_packets", verif_ack_manager_two_packets),
        ("verif_ack_manager_transmit", verif_ack_manager_transmit),
        ("verif_ack_manager_ack_of_ack", verif_ack_manager_ack_of_ack),
        ("verif_ack_manager_three_packets", verif_ack_manager_three_packets),
    ]);
}
