// C11-O1: anti-amplification accounting of an unvalidated server path.
// Ghost totals: recv / sent bytes on the path.  RFC 9000 8.1: before validation an endpoint MUST
// NOT send more than three times the data received; the implementation lets the datagram that
// crosses the limit complete (documented), so the bound is 3*recv + one datagram.
use super::*;
#[cfg(not(kani))]
use crate::kani;

struct Ghost {
    recv: u64,
    sent: u64,
}

fn set_allowance(path: &mut Path<endpoint::testing::Server>, allowance: u32) {
    path.state = State::AmplificationLimited {
        tx_allowance: Counter::new(allowance),
    };
}

fn allowance(path: &Path<endpoint::testing::Server>) -> u32 {
    match path.state {
        State::AmplificationLimited { tx_allowance } => *tx_allowance,
        State::Validated => panic!("validated without validation"),
    }
}

// ---------------------------------------------------------------------------------------------
// (a) the implementation's own books, modulo the recorded finding: the allowance equals
//     3*recv - sent + forgiven, where `forgiven` accumulates the part of each datagram that
//     exceeded the allowance (the saturating subtraction drops it).  Still detects: wrong
//     multiplier, bytes counted twice / not at all, a gate that is not `allowance == 0`.
#[cfg_attr(kani, kani::proof)]
#[cfg_attr(kani, kani::unwind(2))]
fn verif_path_amplification_books() {
    let mut path = testing::helper_path_server();
    let recv: u32 = kani::any();
    let sent: u32 = kani::any();
    let forgiven: u32 = kani::any();
    kani::assume(recv <= 1 << 26 && sent <= 1 << 28 && forgiven <= 1 << 28);
    let bal = 3 * recv as i64 - sent as i64 + forgiven as i64;
    kani::assume(bal >= 0 && bal <= u32::MAX as i64);
    set_allowance(&mut path, bal as u32);

    let limited = path.at_amplification_limit();
    assert!(limited == (bal == 0));
    assert!((path.transmission_constraint() == transmission::Constraint::AmplificationLimited) == limited);

    let n: usize = kani::any();
    kani::assume(n <= 65535);
    let op: u8 = kani::any();
    kani::assume(op < 3);
    if op == 2 {
        // the PEER validating US (e.g. an ACK for our packets) says nothing about the peer's
        // address: the amplification limit must stay in force
        path.on_peer_validated();
        assert!(!path.is_validated());
        assert!(allowance(&path) as i64 == bal);
        assert!(path.at_amplification_limit() == limited);
        kani::cover!(limited, "peer-validated but still amplification limited");
    } else if op == 0 {
        let out = path.on_bytes_received(n);
        let expect = (bal + 3 * n as i64).min(u32::MAX as i64);
        assert!(allowance(&path) as i64 == expect);
        let unblocked = limited && n > 0;
        assert!(matches!(out, AmplificationOutcome::Unchanged) == !unblocked);
        kani::cover!(unblocked, "path unblocked by incoming bytes");
    } else {
        kani::assume(!limited && n >= 1);
        path.on_bytes_transmitted(n);
        let expect = (bal - n as i64).max(0);
        assert!(allowance(&path) as i64 == expect);
        kani::cover!(bal < n as i64, "datagram crossing the limit is let through");
        kani::cover!(bal > n as i64, "allowance reduced");
    }
    assert!(!path.is_validated());
    core::mem::forget(path);
}

// ---------------------------------------------------------------------------------------------
// (b)/(w) the property itself.  Strict invariant: allowance == max(0, 3*recv - sent), hence
// "may start a datagram <=> sent < 3*recv" and sent < 3*recv + one datagram at all times.
fn strict_step(in_finding_region: bool) {
    let mut path = testing::helper_path_server();
    let recv: u32 = kani::any();
    let sent: u32 = kani::any();
    kani::assume(recv <= 1 << 26 && sent <= 1 << 28);
    // at most one datagram beyond 3x (what the strict invariant itself guarantees)
    kani::assume((sent as i64) < 3 * recv as i64 + 65536);
    let bal = 3 * recv as i64 - sent as i64;
    set_allowance(&mut path, bal.max(0) as u32);
    let mut g = Ghost { recv: recv as u64, sent: sent as u64 };

    let may_send = !path.at_amplification_limit();
    assert!(may_send == (g.sent < 3 * g.recv));

    let n: usize = kani::any();
    kani::assume(n <= 65535);
    let receive: bool = kani::any();
    // region of the recorded finding: bytes arrive while an overshoot beyond 3x is outstanding
    let region = receive && g.sent > 3 * g.recv && n > 0;
    kani::assume(region == in_finding_region);
    if receive {
        let _ = path.on_bytes_received(n);
        g.recv += n as u64;
    } else {
        kani::assume(may_send && n >= 1);
        path.on_bytes_transmitted(n);
        g.sent += n as u64;
    }
    kani::cover!(true, "step taken");
    // total stays below 3x plus one datagram
    assert!(g.sent < 3 * g.recv + 65536);
    // strict invariant preserved
    let expect = (3 * g.recv as i64 - g.sent as i64).max(0);
    assert!(allowance(&path) as i64 == expect);
    assert!(path.at_amplification_limit() == (g.sent >= 3 * g.recv));
    core::mem::forget(path);
}

#[cfg_attr(kani, kani::proof)]
#[cfg_attr(kani, kani::unwind(2))]
fn verif_path_amplification_strict_outside_finding() {
    strict_step(false);
}

#[cfg_attr(kani, kani::proof)]
#[cfg_attr(kani, kani::unwind(2))]
fn verif_path_amplification_finding_witness() {
    strict_step(true);
}

// ---------------------------------------------------------------------------------------------
// (c) the per-datagram gate of the transmit loop, Path::can_transmit, with a PACING congestion
//     controller (the mock of endpoint::testing never reports a departure time): whatever the
//     pacer says - no departure time, one in the past, one in the future - a path at the
//     amplification limit may not start another datagram, and otherwise the pacer decides.
#[derive(Clone, Debug)]
struct PacedController {
    edt: Option<Timestamp>,
    congestion_limited: bool,
    fast_retransmission: bool,
}

impl s2n_quic_core::recovery::CongestionController for PacedController {
    type PacketInfo = ();
    fn congestion_window(&self) -> u32 {
        u32::MAX
    }
    fn bytes_in_flight(&self) -> u32 {
        0
    }
    fn is_congestion_limited(&self) -> bool {
        self.congestion_limited
    }
    fn requires_fast_retransmission(&self) -> bool {
        self.fast_retransmission
    }
    fn on_packet_sent<Pub: congestion_controller::Publisher>(&mut self, _: Timestamp, _: usize, _: Option<bool>, _: &RttEstimator, _: &mut Pub) {}
    fn on_rtt_update<Pub: congestion_controller::Publisher>(&mut self, _: Timestamp, _: Timestamp, _: &RttEstimator, _: &mut Pub) {}
    fn on_ack<Pub: congestion_controller::Publisher>(&mut self, _: Timestamp, _: usize, _: (), _: &RttEstimator, _: &mut dyn s2n_quic_core::random::Generator, _: Timestamp, _: &mut Pub) {}
    fn on_packet_lost<Pub: congestion_controller::Publisher>(&mut self, _: u32, _: (), _: bool, _: bool, _: &mut dyn s2n_quic_core::random::Generator, _: Timestamp, _: &mut Pub) {}
    fn on_explicit_congestion<Pub: congestion_controller::Publisher>(&mut self, _: u64, _: Timestamp, _: &mut Pub) {}
    fn on_mtu_update<Pub: congestion_controller::Publisher>(&mut self, _: u16, _: &mut Pub) {}
    fn on_packet_discarded<Pub: congestion_controller::Publisher>(&mut self, _: usize, _: &mut Pub) {}
    fn earliest_departure_time(&self) -> Option<Timestamp> {
        self.edt
    }
}

#[derive(Debug)]
struct PacedEndpoint;

impl congestion_controller::Endpoint for PacedEndpoint {
    type CongestionController = PacedController;
    fn new_congestion_controller(&mut self, _: congestion_controller::PathInfo) -> PacedController {
        PacedController { edt: None, congestion_limited: false, fast_retransmission: false }
    }
}

/// endpoint::testing::Server with the pacing controller above
#[derive(Debug)]
struct PacedServer;

impl endpoint::Config for PacedServer {
    type CongestionControllerEndpoint = PacedEndpoint;
    type TLSEndpoint = s2n_quic_core::crypto::tls::testing::Endpoint;
    type PathHandle = RemoteAddress;
    type Connection = connection::Implementation<Self>;
    type ConnectionLock = std::sync::Mutex<Self::Connection>;
    type EndpointLimits = endpoint::testing::Limits;
    type ConnectionIdFormat = connection::id::testing::Format;
    type StatelessResetTokenGenerator = s2n_quic_core::stateless_reset::token::testing::Generator;
    type RandomGenerator = s2n_quic_core::random::testing::Generator;
    type TokenFormat = s2n_quic_core::token::testing::Format;
    type ConnectionLimits = s2n_quic_core::connection::limits::Limits;
    type Mtu = mtu::Config;
    type StreamManager = crate::stream::DefaultStreamManager;
    type ConnectionCloseFormatter = s2n_quic_core::connection::close::Development;
    type EventSubscriber = s2n_quic_core::event::testing::Subscriber;
    type PathMigrationValidator = migration::allow_all::Validator;
    type PacketInterceptor = s2n_quic_core::packet::interceptor::Disabled;
    type DatagramEndpoint = s2n_quic_core::datagram::Disabled;
    type DcEndpoint = s2n_quic_core::dc::testing::MockDcEndpoint;

    fn context(&mut self) -> endpoint::Context<'_, Self> {
        unimplemented!()
    }

    const ENDPOINT_TYPE: endpoint::Type = endpoint::Type::Server;
}

#[cfg_attr(kani, kani::proof)]
#[cfg_attr(kani, kani::unwind(2))]
fn verif_path_can_transmit_gate() {
    use core::time::Duration;
    use s2n_quic_core::connection::limits::ANTI_AMPLIFICATION_MULTIPLIER;
    use s2n_quic_core::time::{Clock as _, NoopClock};
    let base = NoopClock.get_time();
    // departure time and current time as 16-bit microsecond offsets (Timestamp arithmetic is a
    // measured solver wall beyond that)
    let e: u16 = kani::any();
    let t: u16 = kani::any();
    let has_edt: bool = kani::any();
    let edt = base + Duration::from_micros(e as u64);
    let now = base + Duration::from_micros(t as u64);
    let mut path: Path<PacedServer> = Path::new(
        Default::default(),
        connection::PeerId::try_from_bytes(&[]).unwrap(),
        connection::LocalId::TEST_ID,
        RttEstimator::new(Duration::from_millis(30)),
        PacedController {
            edt: if has_edt { Some(edt) } else { None },
            congestion_limited: kani::any(),
            fast_retransmission: kani::any(),
        },
        true,
        mtu::Config::default(),
        ANTI_AMPLIFICATION_MULTIPLIER,
        0,
    );
    let allowance: u32 = kani::any();
    path.state = State::AmplificationLimited { tx_allowance: Counter::new(allowance) };
    let limited = path.at_amplification_limit();
    assert!(limited == (allowance == 0));
    // the constraint handed to every component that wants to write: at the amplification limit
    // it is AmplificationLimited whatever the congestion controller says - otherwise a "forced"
    // transmission (CONNECTION_CLOSE, PTO probe) would be let through by a congestion-only verdict
    let constraint = path.transmission_constraint();
    assert!((constraint == transmission::Constraint::AmplificationLimited) == limited);
    kani::cover!(limited && path.congestion_controller.congestion_limited, "at the amplification limit and congestion limited");
    let can = path.can_transmit(now);
    if limited {
        // RFC 9000 8.1: at the limit nothing is started, paced or not
        assert!(!can);
        kani::cover!(has_edt && e < t, "at the limit with an elapsed departure time");
    } else if !has_edt {
        assert!(can);
    } else if e <= t {
        // the departure time has been reached
        assert!(can);
        kani::cover!(true, "paced packet released");
    } else if e as u32 > t as u32 + 1000 {
        // more than the timer granularity ahead: held back
        assert!(!can);
        kani::cover!(true, "paced packet held back");
    }
    core::mem::forget(path);
}

// ---- generated by tools/fixup.py: native replay entry ----
#[cfg(not(kani))]
#[test]
fn verif_replay() {
    kani::replay(&[
        ("verif_path_amplification_books", verif_path_amplification_books),
        ("verif_path_amplification_strict_outside_finding", verif_path_amplification_strict_outside_finding),
        ("verif_path_amplification_finding_witness", verif_path_amplification_finding_witness),
        ("verif_path_can_transmit_gate", verif_path_can_transmit_gate),
    ]);
}
