// C02-O1: IncrementalValueSync (MAX_DATA / MAX_STREAM_DATA / MAX_STREAMS sender) — a significant,
// unacknowledged increase is never forgotten: it is requested, lost-and-queued, or in flight.
use super::*;
#[cfg(not(kani))]
use crate::kani;
use crate::{
    sync::InflightPacketInfo,
    transmission::interest::Provider as _,
    verif_support::{pn, StubCtx},
};
use s2n_quic_core::{
    packet::number::{PacketNumber, PacketNumberRange},
    time::Clock as _,
    varint::VarInt,
};

#[derive(Default, Debug)]
struct W;
impl ValueToFrameWriter<VarInt> for W {
    fn write_value_as_frame<C: WriteContext>(&self, v: VarInt, _s: StreamId, c: &mut C) -> Option<PacketNumber> {
        c.write_frame(&s2n_quic_core::frame::MaxData { maximum_data: v })
    }
}

fn vi() -> VarInt {
    let v: u64 = kani::any();
    kani::assume(v < (1 << 62));
    VarInt::new(v).unwrap()
}

type Sync = IncrementalValueSync<VarInt, W>;

/// the component's invariant: unless cancelled, an increase of at least `threshold` beyond what the
/// peer has acknowledged (beyond what is in flight, if something is) has a pending transmission
fn invariant(s: &Sync) -> bool {
    if s.value_ackd_up_to > s.latest_value {
        return false;
    }
    let significant_over = |base: VarInt| s.latest_value != s.value_ackd_up_to && s.latest_value - base >= s.threshold;
    match &s.delivery {
        DeliveryState::NotRequested => !significant_over(s.value_ackd_up_to),
        DeliveryState::Requested(v) | DeliveryState::Lost(v) => *v <= s.latest_value,
        DeliveryState::InFlight(f) => {
            f.value <= s.latest_value
                && f.value >= s.value_ackd_up_to
                && (f.value == s.latest_value || !significant_over(f.value))
        }
        DeliveryState::Cancelled(_) => true,
        DeliveryState::Delivered(_) => false,
    }
}

fn any_sync() -> Sync {
    let latest = vi();
    let acked = vi();
    let threshold = vi();
    let now = s2n_quic_core::time::NoopClock.get_time();
    let k: u8 = kani::any();
    kani::assume(k < 5);
    let v = vi();
    let p: u64 = kani::any();
    kani::assume(p < 1000);
    let delivery = match k {
        0 => DeliveryState::NotRequested,
        1 => DeliveryState::Requested(v),
        2 => DeliveryState::Lost(v),
        3 => DeliveryState::InFlight(InFlightDelivery {
            value: v,
            packet: InflightPacketInfo { packet_nr: pn(p), timestamp: now },
        }),
        _ => DeliveryState::Cancelled(None),
    };
    let s = IncrementalValueSync {
        latest_value: latest,
        value_ackd_up_to: acked,
        threshold,
        delivery,
        writer: W,
    };
    kani::assume(invariant(&s));
    s
}

#[cfg_attr(kani, kani::proof)]
#[cfg_attr(kani, kani::unwind(10))]
fn verif_ivs_step() {
    let mut s = any_sync();
    let cancelled0 = s.is_cancelled();
    let latest0 = s.latest_value;
    let acked0 = s.value_ackd_up_to;
    let op: u8 = kani::any();
    kani::assume(op < 4);
    match op {
        0 => {
            let newv = vi();
            kani::assume(newv >= s.latest_value);
            s.update_latest_value(newv);
            assert!(s.latest_value == newv);
            kani::cover!(s.has_transmission_interest() && !cancelled0, "update requested");
        }
        1 => {
            let lo: u64 = kani::any();
            let hi: u64 = kani::any();
            kani::assume(lo <= hi && hi < 1000);
            let set = PacketNumberRange::new(pn(lo), pn(hi));
            let inflight = match &s.delivery {
                DeliveryState::InFlight(f) => Some((f.packet.packet_nr.as_u64(), f.value)),
                _ => None,
            };
            s.on_packet_ack(&set);
            if let Some((p, v)) = inflight {
                if lo <= p && p <= hi {
                    assert!(s.value_ackd_up_to == v);
                    kani::cover!(true, "delivery acknowledged");
                } else {
                    assert!(s.value_ackd_up_to == acked0 && s.is_inflight());
                }
            } else {
                assert!(s.value_ackd_up_to == acked0);
            }
            assert!(s.latest_value == latest0);
        }
        2 => {
            let lo: u64 = kani::any();
            let hi: u64 = kani::any();
            kani::assume(lo <= hi && hi < 1000);
            let set = PacketNumberRange::new(pn(lo), pn(hi));
            let inflight = match &s.delivery {
                DeliveryState::InFlight(f) => Some(f.packet.packet_nr.as_u64()),
                _ => None,
            };
            s.on_packet_loss(&set);
            if let Some(p) = inflight {
                if lo <= p && p <= hi {
                    // a lost update is queued for retransmission carrying the latest value
                    assert!(matches!(s.delivery, DeliveryState::Lost(v) if v == s.latest_value));
                    assert!(s.has_transmission_interest());
                    kani::cover!(true, "lost update queued again");
                }
            }
            assert!(s.latest_value == latest0 && s.value_ackd_up_to == acked0);
        }
        _ => {
            let cap: usize = kani::any();
            kani::assume(cap <= 16);
            let mut ctx = StubCtx::new(cap);
            let c: u8 = kani::any();
            ctx.constraint = match c % 4 {
                0 => transmission::Constraint::None,
                1 => transmission::Constraint::AmplificationLimited,
                2 => transmission::Constraint::CongestionLimited,
                _ => transmission::Constraint::RetransmissionOnly,
            };
            let had_interest = s.has_transmission_interest();
            let r = s.on_transmit(StreamId::from_varint(VarInt::from_u8(0)), &mut ctx);
            if ctx.frames_written == 1 {
                // the frame carries the LATEST value and is tracked under the packet it went into
                assert!(r.is_ok() && had_interest);
                let (v, n) = crate::verif_support::ref_varint(&ctx.last_frame[1..ctx.last_frame_len]).unwrap();
                assert!(ctx.last_frame[0] == 0x10 && n + 1 == ctx.last_frame_len);
                assert!(v == latest0.as_u64());
                assert!(matches!(&s.delivery, DeliveryState::InFlight(f) if f.value == latest0 && f.packet.packet_nr == ctx.pn));
                kani::cover!(true, "MAX_DATA written");
            } else {
                assert!(ctx.frames_written == 0);
                // nothing written: a pending request stays pending
                assert!(s.has_transmission_interest() == had_interest);
                kani::cover!(had_interest && r.is_err(), "frame did not fit: request kept");
                kani::cover!(had_interest && r.is_ok(), "constraint forbids sending: request kept");
            }
            assert!(s.latest_value == latest0 && s.value_ackd_up_to == acked0);
        }
    }
    assert!(s.is_cancelled() == cancelled0);
    // nothing pending is forgotten
    assert!(invariant(&s));
    if s.is_cancelled() {
        assert!(!s.has_transmission_interest());
    }
}

// ---- generated by tools/fixup.py: native replay entry ----
#[cfg(not(kani))]
#[test]
fn verif_replay() {
    kani::replay(&[
        ("verif_ivs_step", verif_ivs_step),
    ]);
}
