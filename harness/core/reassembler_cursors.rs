// C01-O2/O3, C16-O2/O3, C04-O3: the reassembler's cursor bookkeeping (final-size rules, skip) and
// slot allocation arithmetic, each one step from an ARBITRARY cursor state. The slot list itself
// is kept empty: slot-list manipulation is measured out of reach (DESIGN.md section 3).
use super::*;
#[cfg(not(kani))]
use crate::kani;

const MAX: u64 = (1 << 62) - 1;

/// arbitrary cursors under their invariant: consumed <= highest offset seen <= final size (if known)
fn any_cursors() -> Cursors {
    let start: u64 = kani::any();
    let max_recv: u64 = kani::any();
    let fin_known: bool = kani::any();
    let fin: u64 = kani::any();
    kani::assume(start <= max_recv && max_recv <= MAX);
    if fin_known {
        kani::assume(max_recv <= fin && fin <= MAX);
    }
    Cursors {
        start_offset: start,
        max_recv_offset: max_recv,
        final_offset: if fin_known { fin } else { UNKNOWN_FINAL_SIZE },
    }
}

fn invariant(c: &Cursors) -> bool {
    c.start_offset <= c.max_recv_offset
        && c.max_recv_offset <= MAX
        && (c.final_offset == UNKNOWN_FINAL_SIZE || (c.max_recv_offset <= c.final_offset && c.final_offset <= MAX))
}

// RFC 9000 4.5 final-size rules on one incoming segment (offset, len <= 4, fin flag)
#[cfg_attr(kani, kani::proof)]
#[cfg_attr(kani, kani::unwind(6))]
fn verif_cursors_handle_fin() {
    let mut c = any_cursors();
    let before = c;
    let off: u64 = kani::any();
    let len: usize = kani::any();
    kani::assume(off <= MAX && len <= 4 && off + len as u64 <= MAX);
    let data = [0u8; 4];
    let is_fin: bool = kani::any();
    let mut req = Request::new(VarInt::new(off).unwrap(), &data[..len], is_fin).unwrap();
    let r = c.handle_reader_fin(&mut req);
    let end = off + len as u64;
    let known = before.final_offset != UNKNOWN_FINAL_SIZE;
    let reject = if is_fin {
        // a final size must not change and must not lie below data already seen
        if known { end != before.final_offset } else { end < before.max_recv_offset }
    } else {
        // data beyond an established final size
        known && end > before.final_offset
    };
    if reject {
        assert!(matches!(r, Err(Error::InvalidFin)));
        // contents unchanged
        assert!(c == before);
        kani::cover!(is_fin && known, "changed final size rejected");
        kani::cover!(is_fin && !known, "final size below received data rejected");
        kani::cover!(!is_fin, "data beyond the final size rejected");
    } else {
        assert!(r.is_ok());
        assert!(c.start_offset == before.start_offset);
        assert!(c.max_recv_offset == core::cmp::max(before.max_recv_offset, end));
        assert!(c.final_offset == if is_fin { end } else { before.final_offset });
        assert!(invariant(&c));
        kani::cover!(is_fin && !known && end == before.max_recv_offset, "FIN exactly at the highest offset seen");
    }
}

// skip(len) on a buffer with no stored slots: the read cursor moves, everything up to it counts as
// seen, a known final size cannot be skipped past
#[cfg_attr(kani, kani::proof)]
#[cfg_attr(kani, kani::unwind(3))]
fn verif_reassembler_skip_cursors() {
    let before = any_cursors();
    let mut r = Reassembler { slots: VecDeque::new(), cursors: before };
    let len: u64 = kani::any();
    kani::assume(len <= MAX);
    let res = r.skip(VarInt::new(len).unwrap());
    let target = before.start_offset as u128 + len as u128;
    if len == 0 {
        assert!(res.is_ok() && r.cursors == before);
    } else if target > MAX as u128 {
        assert!(matches!(res, Err(Error::OutOfRange)));
        assert!(r.cursors == before);
        kani::cover!(true, "skip beyond the maximum offset rejected");
    } else if before.final_offset != UNKNOWN_FINAL_SIZE && (target as u64) > before.final_offset {
        assert!(matches!(res, Err(Error::InvalidFin)));
        assert!(r.cursors == before);
        kani::cover!(true, "skip beyond the final size rejected");
    } else {
        assert!(res.is_ok());
        assert!(r.cursors.start_offset == target as u64);
        assert!(r.cursors.max_recv_offset == core::cmp::max(before.max_recv_offset, target as u64));
        assert!(r.cursors.final_offset == before.final_offset);
        // consumed bytes always count as received: later final sizes below them must be rejected
        assert!(invariant(&r.cursors));
        assert!(r.consumed_len() == target as u64);
        kani::cover!(target as u64 > before.max_recv_offset, "skipped past everything received");
        kani::cover!((target as u64) < before.max_recv_offset, "skipped inside received data");
    }
    core::mem::forget(r);
}

// Reassembler::write_reader with its slot-list part encoded is out of reach: even for an EMPTY
// segment on a buffer without slots symbolic execution did not finish in 20 min (measured twice).
// verif_reassembler_write_stale_segment below therefore cuts write_reader_impl with a checking stub.

// slot allocation for a segment that found no slot: the new slot contains the segment start, never
// reaches below the read cursor, covers its whole aligned block — and is shortened ONLY to the
// final size of the stream (so two segments of one block can never get overlapping slots).
#[cfg_attr(kani, kani::proof)]
#[cfg_attr(kani, kani::unwind(6))]
fn verif_reassembler_allocate_slot() {
    let c = any_cursors();
    let mut r = Reassembler { slots: VecDeque::new(), cursors: c };
    let off: u64 = kani::any();
    let len: usize = kani::any();
    kani::assume(len >= 1 && len <= 4);
    // the caller has trimmed the segment to start at/after the read cursor and checked the final size
    kani::assume(off <= MAX - 4);
    kani::assume(off >= c.start_offset);
    kani::assume(c.final_offset == UNKNOWN_FINAL_SIZE || off + len as u64 <= c.final_offset);
    let data = [0u8; 4];
    let req = Request::new(VarInt::new(off).unwrap(), &data[..len], false).unwrap();
    let slot = r.allocate_slot(&req);
    // the block size is the implementation's choice (today 4096/16384/32768/65536 by offset):
    // the property only needs it to be a sane power of two that a Slot can hold
    let size = Reassembler::allocation_size(off) as u64;
    assert!(size.is_power_of_two() && size >= 8 && size <= 65536);
    let block_start = off - off % size;
    let block_end = block_start + size;
    assert!(slot.start() == core::cmp::max(block_start, c.start_offset));
    assert!(slot.start() <= off && off < slot.end_allocated());
    assert!(slot.end() == slot.start());
    assert!(slot.end_allocated() <= block_end);
    assert!(slot.end_allocated() - slot.start() <= 65536);
    if slot.end_allocated() != block_end {
        // shortened: only because the stream ends inside this block, exactly at this segment's end
        assert!(c.final_offset != UNKNOWN_FINAL_SIZE);
        assert!(slot.end_allocated() == c.final_offset);
        assert!(off + len as u64 == c.final_offset);
        kani::cover!(true, "last slot of the stream trimmed to the final size");
    }
    kani::cover!(c.start_offset > block_start, "block starts below the read cursor");
    kani::cover!(off >= 1 << 20 && slot.end_allocated() == block_end, "full block at a large offset");
    core::mem::forget(slot);
    core::mem::forget(r);
}

// Cut for the harness below (Kani stub of the private Reassembler::write_reader_impl): the slot
// list manipulation is out of reach, and for a segment that is completely stale (ends at or below
// the read cursor) nothing is left to store once write_reader has trimmed it.  The stub CHECKS
// that (a non-empty reader reaching it fails the harness) and stores nothing.
fn stub_write_reader_impl<R>(_this: &mut Reassembler, reader: &mut R) -> Result<(), R::Error>
where
    R: Reader + ?Sized,
{
    assert!(reader.buffer_is_empty());
    Ok(())
}

// write_reader (the real entry point of every incoming STREAM/CRYPTO segment) for a segment that
// is entirely stale - a late retransmission of bytes the application has already consumed - with
// or without FIN: the final-size rules of RFC 9000 4.5 are still applied, nothing else moves.
#[cfg_attr(kani, kani::proof)]
#[cfg_attr(kani, kani::unwind(6))]
#[cfg_attr(kani, kani::stub(Reassembler::write_reader_impl, stub_write_reader_impl))]
fn verif_reassembler_write_stale_segment() {
    let before = any_cursors();
    let mut r = Reassembler { slots: VecDeque::new(), cursors: before };
    let off: u64 = kani::any();
    let len: usize = kani::any();
    kani::assume(len <= 4 && off <= MAX - 4);
    let end = off + len as u64;
    kani::assume(end <= before.start_offset);
    let is_fin: bool = kani::any();
    let data = [0u8; 4];
    let res = if is_fin {
        r.write_at_fin(VarInt::new(off).unwrap(), &data[..len])
    } else {
        r.write_at(VarInt::new(off).unwrap(), &data[..len])
    };
    let known = before.final_offset != UNKNOWN_FINAL_SIZE;
    // final size below data already seen (end <= consumed <= max_recv), or a changed final size
    let reject = is_fin && if known { end != before.final_offset } else { end < before.max_recv_offset };
    if reject {
        assert!(matches!(res, Err(Error::InvalidFin)));
        assert!(r.cursors == before);
        kani::cover!(end < before.start_offset && !known, "stale FIN below the read cursor rejected");
        kani::cover!(known, "stale FIN that changes the final size rejected");
    } else {
        assert!(res.is_ok());
        assert!(r.cursors.start_offset == before.start_offset);
        assert!(r.cursors.max_recv_offset == before.max_recv_offset);
        assert!(r.cursors.final_offset == if is_fin { end } else { before.final_offset });
        kani::cover!(is_fin && !known, "FIN exactly at the read cursor of a fully consumed stream accepted");
        kani::cover!(!is_fin && len > 0, "stale data ignored");
    }
    core::mem::forget(r);
}

// Second cut of write_reader_impl: instead of storing, CHECK what write_reader hands to the
// slot-list code - these are exactly the preconditions that verif_reassembler_allocate_slot (and
// Slot::try_write_reader) assume: the segment has been trimmed to the read cursor and its end has
// been validated against (and recorded in) the cursors.
fn stub_write_reader_impl_pre<R>(this: &mut Reassembler, reader: &mut R) -> Result<(), R::Error>
where
    R: Reader + ?Sized,
{
    let c = this.cursors;
    let cur = reader.current_offset().as_u64();
    let end = cur + reader.buffered_len() as u64;
    if !reader.buffer_is_empty() {
        assert!(cur >= c.start_offset);
    }
    assert!(end <= c.max_recv_offset || reader.buffer_is_empty());
    assert!(c.final_offset == UNKNOWN_FINAL_SIZE || end <= c.final_offset);
    if let Some(fin) = reader.final_offset() {
        assert!(c.final_offset == fin.as_u64());
    }
    assert!(invariant(&c));
    Ok(())
}

// write_reader for ANY segment of up to 4 bytes (stale, overlapping the read cursor, or new):
// rejected exactly per the final-size rules with the cursors untouched, otherwise the slot-list
// code is entered with a trimmed, validated segment (checked inside the stub above).
#[cfg_attr(kani, kani::proof)]
#[cfg_attr(kani, kani::unwind(6))]
#[cfg_attr(kani, kani::stub(Reassembler::write_reader_impl, stub_write_reader_impl_pre))]
fn verif_reassembler_write_reader_prework() {
    let before = any_cursors();
    let mut r = Reassembler { slots: VecDeque::new(), cursors: before };
    let off: u64 = kani::any();
    let len: usize = kani::any();
    kani::assume(len <= 4 && off <= MAX - 4);
    let end = off + len as u64;
    let is_fin: bool = kani::any();
    let data = [0u8; 4];
    let res = if is_fin {
        r.write_at_fin(VarInt::new(off).unwrap(), &data[..len])
    } else {
        r.write_at(VarInt::new(off).unwrap(), &data[..len])
    };
    let known = before.final_offset != UNKNOWN_FINAL_SIZE;
    let reject = if is_fin {
        if known { end != before.final_offset } else { end < before.max_recv_offset }
    } else {
        known && end > before.final_offset
    };
    if reject {
        assert!(matches!(res, Err(Error::InvalidFin)));
        assert!(r.cursors == before);
        kani::cover!(!is_fin, "data beyond the final size rejected by write_reader");
        kani::cover!(is_fin && end < before.start_offset, "stale FIN rejected by write_reader");
    } else {
        assert!(res.is_ok());
        assert!(r.cursors.start_offset == before.start_offset);
        assert!(r.cursors.max_recv_offset == core::cmp::max(before.max_recv_offset, end));
        assert!(r.cursors.final_offset == if is_fin { end } else { before.final_offset });
        kani::cover!(off < before.start_offset && end > before.start_offset, "segment overlapping the read cursor trimmed");
        kani::cover!(off > before.max_recv_offset, "segment beyond everything seen (gap)");
    }
    core::mem::forget(r);
}

// the READ side: pop_watermarked on a buffer holding ONE slot (8 allocated bytes, `n` of them
// received, starting exactly at the read cursor): the application gets the received bytes in order
// from the read cursor, at most `watermark` of them, each byte once (the cursor moves past them),
// and nothing when the slot is not contiguous with the cursor.
#[cfg_attr(kani, kani::proof)]
#[cfg_attr(kani, kani::unwind(10))]
fn verif_reassembler_pop_one_slot() {
    let base: u64 = kani::any();
    kani::assume(base <= MAX - 64);
    let data: [u8; 8] = kani::any();
    let n: usize = kani::any();
    kani::assume(n >= 1 && n <= 8);
    let mut slot = Slot::new(base, base + 8, BytesMut::with_capacity(8));
    {
        let mut req = Request::new(VarInt::new(base).unwrap(), &data[..n], false).unwrap();
        let mut flag = false;
        let r = slot.try_write_reader(&mut req, &mut flag);
        assert!(matches!(r, Ok(None)));
    }
    // the read cursor is at the slot (contiguous data) or below it (a gap in front of the slot)
    let gap: bool = kani::any();
    kani::assume(!gap || base >= 1);
    let start = if gap { base - 1 } else { base };
    let fin_known: bool = kani::any();
    let cursors = Cursors {
        start_offset: start,
        max_recv_offset: base + n as u64,
        final_offset: if fin_known { base + n as u64 } else { UNKNOWN_FINAL_SIZE },
    };
    let mut slots = VecDeque::with_capacity(2);
    slots.push_back(slot);
    let mut r = Reassembler { slots, cursors };
    let watermark: usize = kani::any();
    kani::assume(watermark <= 16);
    let got = r.pop_watermarked(watermark);
    if gap || watermark == 0 {
        assert!(got.is_none());
        assert!(r.cursors.start_offset == start);
        kani::cover!(gap, "nothing delivered across a gap");
    } else {
        let chunk = got.unwrap();
        let want = core::cmp::min(n, watermark);
        assert!(chunk.len() == want);
        let k: usize = kani::any();
        kani::assume(k < want);
        assert!(chunk[k] == data[k]);
        assert!(r.cursors.start_offset == base + want as u64);
        assert!(r.consumed_len() == base + want as u64);
        kani::cover!(want < n, "partial read limited by the watermark");
        kani::cover!(want == n && fin_known, "last bytes of the stream read");
        core::mem::forget(chunk);
    }
    core::mem::forget(r);
}

// NOT covered: an end-to-end write-then-read on the real code without a stub. Even the smallest
// case - one FIN segment of 1..4 bytes at offset 0 into a fresh Reassembler (allocate_slot trims the
// slot to the data, so no 4096-byte block is involved), then pop() - was still in symbolic execution
// after 60 min (11.4 GB). The write side is decided up to the slot-list boundary (checking stub),
// the slot write and the read side on one-slot shapes.

// ---- generated by tools/fixup.py: native replay entry ----
#[cfg(not(kani))]
#[test]
fn verif_replay() {
    kani::replay(&[
        ("verif_cursors_handle_fin", verif_cursors_handle_fin),
        ("verif_reassembler_skip_cursors", verif_reassembler_skip_cursors),
        ("verif_reassembler_allocate_slot", verif_reassembler_allocate_slot),
        ("verif_reassembler_write_stale_segment", verif_reassembler_write_stale_segment),
        ("verif_reassembler_write_reader_prework", verif_reassembler_write_reader_prework),
        ("verif_reassembler_pop_one_slot", verif_reassembler_pop_one_slot),
    ]);
}
