// constructor used by the KeySet harnesses to build a limited::Key with an arbitrary usage counter
// (child module of crypto::application::limited, so it can name the private fields)
use super::*;

impl<K: OneRttKey> Key<K> {
    pub(crate) fn verif_new(key: K, encrypted_packets: u64) -> Self {
        Key {
            confidentiality_limit: key.aead_confidentiality_limit(),
            key,
            encrypted_packets,
            decrypted_packets: 0,
        }
    }
}
