// C01-O1 / C16-O1: one write into a reassembly slot — placement, trimming, split, reader advance.
use super::*;
#[cfg(not(kani))]
use crate::kani;
use crate::buffer::reassembler::Request;
use crate::buffer::reader::Storage as _;

const CAP: u64 = 8;

// one write into a fresh 8-byte slot at a symbolic in-slot offset
#[cfg_attr(kani, kani::proof)]
#[cfg_attr(kani, kani::unwind(10))]
fn verif_slot_write_fresh() {
    let base: u64 = kani::any();
    kani::assume(base <= (1 << 62) - 1 - 64);
    let mut slot = Slot::new(base, base + CAP, BytesMut::with_capacity(CAP as usize));
    let rel: u64 = kani::any();
    let len: usize = kani::any();
    kani::assume(rel < CAP && len >= 1 && len <= 4);
    let data: [u8; 4] = kani::any();
    let mut req = Request::new(VarInt::new(base + rel).unwrap(), &data[..len], false).unwrap();
    let mut filled_flag = false;
    let res = slot.try_write_reader(&mut req, &mut filled_flag);
    let filled = match res {
        Ok(f) => f,
        Err(_) => unreachable!(),
    };
    let written = core::cmp::min(len as u64, CAP - rel);
    let k: usize = kani::any();
    kani::assume((k as u64) < written);
    if rel == 0 {
        assert!(filled.is_none());
        assert!(slot.start() == base && slot.end() == base + written);
        assert!(slot.end_allocated() == base + CAP);
        assert!(slot.as_slice().len() as u64 == written);
        assert!(slot.as_slice()[k] == data[k]);
        kani::cover!(written == 4, "append 4 bytes at slot start");
    } else {
        let f = filled.unwrap();
        // the old slot shrinks to the (empty) gap in front of the data; the new slot owns the rest
        assert!(slot.start() == base && slot.end() == base && slot.end_allocated() == base + rel);
        assert!(f.start() == base + rel && f.end() == base + rel + written && f.end_allocated() == base + CAP);
        assert!(f.as_slice().len() as u64 == written);
        assert!(f.as_slice()[k] == data[k]);
        kani::cover!(written < len as u64, "write truncated at the slot end");
        kani::cover!(rel == 3 && written == 4, "split in the middle");
        core::mem::forget(f);
    }
    // the flag reports that the allocation end was reached
    assert!(filled_flag == (rel + written == CAP));
    // the reader advanced by exactly what was copied
    use crate::buffer::Reader;
    assert!(req.current_offset().as_u64() == base + rel + written);
    assert!(req.buffered_len() as u64 == len as u64 - written);
    core::mem::forget(slot);
}

// second write into a slot that already holds `pre` bytes: already-received bytes are never
// overwritten (the reader is trimmed), new bytes are appended / split after them.
#[cfg_attr(kani, kani::proof)]
#[cfg_attr(kani, kani::unwind(10))]
fn verif_slot_write_prefilled() {
    let base: u64 = kani::any();
    kani::assume(base <= (1 << 62) - 1 - 64);
    let mut slot = Slot::new(base, base + CAP, BytesMut::with_capacity(CAP as usize));
    let first: [u8; 4] = kani::any();
    let pre: usize = kani::any();
    kani::assume(pre >= 1 && pre <= 4);
    {
        let mut req0 = Request::new(VarInt::new(base).unwrap(), &first[..pre], false).unwrap();
        let mut flag0 = false;
        let r0 = slot.try_write_reader(&mut req0, &mut flag0);
        assert!(matches!(r0, Ok(None)));
    }
    assert!(slot.end() == base + pre as u64);

    let rel: u64 = kani::any();
    let len: usize = kani::any();
    kani::assume(rel < CAP && len >= 1 && len <= 4);
    let data: [u8; 4] = kani::any();
    let mut req = Request::new(VarInt::new(base + rel).unwrap(), &data[..len], false).unwrap();
    let mut filled_flag = false;
    let res = slot.try_write_reader(&mut req, &mut filled_flag);
    let filled = match res {
        Ok(f) => f,
        Err(_) => unreachable!(),
    };
    let pre64 = pre as u64;
    let req_end = rel + len as u64;
    use crate::buffer::Reader;
    // bytes that were already there are untouched
    let j: usize = kani::any();
    kani::assume(j < pre);
    if req_end <= pre64 {
        // pure duplicate: nothing changes, the reader is drained up to what the slot holds
        assert!(filled.is_none());
        assert!(slot.end() == base + pre64);
        assert!(slot.as_slice()[j] == first[j]);
        assert!(req.current_offset().as_u64() == base + req_end);
        kani::cover!(true, "duplicate data ignored");
    } else if rel <= pre64 {
        // overlaps or touches the filled prefix: trimmed, then appended
        assert!(filled.is_none());
        let new_bytes = core::cmp::min(req_end, CAP) - pre64;
        assert!(slot.end() == base + pre64 + new_bytes);
        assert!(slot.as_slice()[j] == first[j]);
        let k: usize = kani::any();
        kani::assume((k as u64) < new_bytes);
        // byte at absolute in-slot position pre+k came from request index pre+k-rel
        assert!(slot.as_slice()[pre + k] == data[(pre64 + k as u64 - rel) as usize]);
        assert!(req.current_offset().as_u64() == base + pre64 + new_bytes);
        kani::cover!(rel < pre64, "overlapping write trimmed and appended");
        kani::cover!(pre64 + new_bytes == CAP, "slot filled to its end");
    } else {
        // gap between the prefix and the new data: split
        let f = filled.unwrap();
        let written = core::cmp::min(len as u64, CAP - rel);
        assert!(slot.start() == base && slot.end() == base + pre64 && slot.end_allocated() == base + rel);
        assert!(slot.as_slice()[j] == first[j]);
        assert!(f.start() == base + rel && f.end() == base + rel + written && f.end_allocated() == base + CAP);
        let k: usize = kani::any();
        kani::assume((k as u64) < written);
        assert!(f.as_slice()[k] == data[k]);
        assert!(req.current_offset().as_u64() == base + rel + written);
        kani::cover!(true, "write after a gap splits the slot");
        core::mem::forget(f);
    }
    core::mem::forget(slot);
}

// ---- generated by tools/fixup.py: native replay entry ----
#[cfg(not(kani))]
#[test]
fn verif_replay() {
    kani::replay(&[
        ("verif_slot_write_fresh", verif_slot_write_fresh),
        ("verif_slot_write_prefilled", verif_slot_write_prefilled),
    ]);
}
