// C05-O3 (CONNECTION_CLOSE): the real per-type decoder / encoder vs an independently written
// RFC 9000 section 19.19 reference.
//   CONNECTION_CLOSE Frame {
//     Type (i) = 0x1c..0x1d, Error Code (i), [Frame Type (i)],
//     Reason Phrase Length (i), Reason Phrase (..),
//   }
//   "The application-specific variant of CONNECTION_CLOSE (type 0x1d) does not include this
//    [Frame Type] field."
use super::*;
#[cfg(not(kani))]
use crate::kani;
use s2n_codec::{DecoderBuffer, Encoder, EncoderBuffer, EncoderValue};

/// RFC 9000 section 16 variable-length integer: (value, bytes consumed)
fn ref_varint(b: &[u8]) -> Option<(u64, usize)> {
    if b.is_empty() {
        return None;
    }
    let n = 1usize << (b[0] >> 6);
    if b.len() < n {
        return None;
    }
    let mut v = (b[0] & 0x3f) as u64;
    let mut i = 1;
    while i < n {
        v = (v << 8) | b[i] as u64;
        i += 1;
    }
    Some((v, n))
}

const N: usize = 12;

struct RefFrame {
    error_code: u64,
    /// present only in the transport variant (type 0x1c)
    frame_type: Option<u64>,
    /// offset and length of the Reason Phrase field in the body
    reason_at: usize,
    reason_len: usize,
    consumed: usize,
}

/// reference parser of the frame body (everything after the type byte)
fn ref_parse(tag: u8, b: &[u8]) -> Option<RefFrame> {
    let mut at = 0usize;
    let (error_code, n) = ref_varint(&b[at..])?;
    at += n;
    let frame_type = if tag == 0x1c {
        let (frame_type, n) = ref_varint(&b[at..])?;
        at += n;
        Some(frame_type)
    } else {
        None
    };
    let (length, n) = ref_varint(&b[at..])?;
    at += n;
    if length > (b.len() - at) as u64 {
        return None;
    }
    let reason_len = length as usize;
    let reason_at = at;
    at += reason_len;
    Some(RefFrame {
        error_code,
        frame_type,
        reason_at,
        reason_len,
        consumed: at,
    })
}

#[cfg_attr(kani, kani::proof)]
#[cfg_attr(kani, kani::unwind(9))]
fn verif_frame_connection_close_decode_diff() {
    let bytes: [u8; N] = kani::any();
    let len: usize = kani::any();
    kani::assume(len <= N);
    let tag: u8 = kani::any();
    kani::assume(tag >= 0x1c && tag <= 0x1d);
    let res = DecoderBuffer::new(&bytes[..len]).decode_parameterized::<ConnectionClose>(tag);
    match (res, ref_parse(tag, &bytes[..len])) {
        (Ok((frame, rest)), Some(r)) => {
            kani::cover!(tag == 0x1c && r.reason_at == 6 && r.reason_len == 2, "transport close, three 2-byte varints, reason");
            kani::cover!(tag == 0x1d && r.reason_len == 3, "application close with reason");
            kani::cover!(r.reason_len == 0, "no reason phrase");
            kani::cover!(r.consumed < len, "trailing bytes left for the next frame");
            assert!(frame.error_code.as_u64() == r.error_code);
            match (frame.frame_type, r.frame_type) {
                (Some(a), Some(b)) => assert!(a.as_u64() == b),
                (None, None) => {}
                _ => panic!("Frame Type field presence does not follow the frame type"),
            }
            // an empty Reason Phrase is reported as None
            match frame.reason {
                Some(reason) => {
                    assert!(r.reason_len != 0);
                    assert!(reason.len() == r.reason_len);
                    let k: usize = kani::any();
                    kani::assume(k < r.reason_len);
                    assert!(reason[k] == bytes[r.reason_at + k]);
                }
                None => assert!(r.reason_len == 0),
            }
            assert!(rest.len() == len - r.consumed);
            assert!(frame.tag() == tag);
        }
        (Err(_), None) => {
            kani::cover!(tag == 0x1c && len == 2, "rejected: transport close without reason length");
            kani::cover!(tag == 0x1d && len == 3 && bytes[0] < 64 && bytes[1] == 2, "rejected: truncated reason");
        }
        (Ok(_), None) => panic!("decoder accepted a frame the RFC reference rejects"),
        (Err(_), Some(_)) => panic!("decoder rejected a well-formed frame"),
    }
}

#[cfg_attr(kani, kani::proof)]
#[cfg_attr(kani, kani::unwind(9))]
fn verif_frame_connection_close_roundtrip() {
    let error_code: u64 = kani::any();
    kani::assume(error_code < (1 << 62));
    let frame_type_value: u64 = kani::any();
    kani::assume(frame_type_value < (1 << 62));
    let has_frame_type: bool = kani::any();
    let payload: [u8; 4] = kani::any();
    let reason_len: usize = kani::any();
    kani::assume(reason_len <= 4);
    // both representations of "no reason phrase": None and Some(empty)
    let has_reason: bool = kani::any();
    kani::assume(has_reason || reason_len == 0);
    let frame = ConnectionClose {
        error_code: VarInt::new(error_code).unwrap(),
        frame_type: if has_frame_type {
            Some(VarInt::new(frame_type_value).unwrap())
        } else {
            None
        },
        reason: if has_reason {
            Some(&payload[..reason_len])
        } else {
            None
        },
    };
    const CAP: usize = 1 + 8 + 8 + 1 + 4;
    let mut storage = [0u8; CAP];
    let size = frame.encoding_size();
    let cap: usize = kani::any();
    kani::assume(cap >= size && cap <= CAP);
    let written = {
        let mut enc = EncoderBuffer::new(&mut storage[..cap]);
        enc.encode(&frame);
        enc.len()
    };
    assert!(size == written);
    kani::cover!(written == CAP, "8-byte error code and frame type, 4-byte reason");
    kani::cover!(!has_frame_type && !has_reason && written == 3 && cap == 3, "smallest application close, exact fit");
    kani::cover!(has_reason && reason_len == 0, "Some(empty) reason");
    // RFC layout: 0x1c carries a Frame Type field, 0x1d does not
    assert!(storage[0] == if has_frame_type { 0x1c } else { 0x1d });
    match ref_parse(storage[0], &storage[1..written]) {
        Some(r) => {
            assert!(r.error_code == error_code);
            assert!(r.frame_type.is_some() == has_frame_type);
            if let Some(t) = r.frame_type {
                assert!(t == frame_type_value);
            }
            assert!(r.reason_len == reason_len);
            assert!(r.consumed == written - 1);
            let k: usize = kani::any();
            kani::assume(k < reason_len);
            assert!(storage[1 + r.reason_at + k] == payload[k]);
        }
        None => panic!("encoder output is not a well-formed frame"),
    }
    let (back, rest) = DecoderBuffer::new(&storage[1..written])
        .decode_parameterized::<ConnectionClose>(storage[0])
        .unwrap();
    assert!(rest.is_empty());
    assert!(back.error_code.as_u64() == error_code);
    assert!(back.frame_type.is_some() == has_frame_type);
    if let Some(t) = back.frame_type {
        assert!(t.as_u64() == frame_type_value);
    }
    // equality up to the two representations of an empty reason phrase
    match back.reason {
        Some(reason) => {
            assert!(reason_len != 0);
            assert!(reason.len() == reason_len);
            let k: usize = kani::any();
            kani::assume(k < reason_len);
            assert!(reason[k] == payload[k]);
        }
        None => assert!(reason_len == 0),
    }
}

// ---- generated by tools/fixup.py: native replay entry ----
#[cfg(not(kani))]
#[test]
fn verif_replay() {
    kani::replay(&[
        ("verif_frame_connection_close_decode_diff", verif_frame_connection_close_decode_diff),
        ("verif_frame_connection_close_roundtrip", verif_frame_connection_close_roundtrip),
    ]);
}
