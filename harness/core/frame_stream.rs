// C05-O3 (STREAM): the real per-type decoder / encoder vs an independently written
// RFC 9000 section 19.8 reference.
//   STREAM Frame { Type (i) = 0x08..0x0f, Stream ID (i), [Offset (i)], [Length (i)], Stream Data (..) }
//   OFF bit 0x04: Offset field present (absent: offset 0);  LEN bit 0x02: Length field present
//   (absent: "the Stream Data field extends to the end of the packet");  FIN bit 0x01.
//   "The largest offset delivered on a stream -- the sum of the offset and data length -- cannot
//    exceed 2^62-1 ... Receipt of a frame that exceeds this limit MUST be treated as a connection
//    error of type FRAME_ENCODING_ERROR or FLOW_CONTROL_ERROR."
// The RFC leaves open which layer raises that error: the codec may accept such a frame as long as
// it reports the fields faithfully (s2n-quic-transport stream/receive_stream.rs then fails with
// FLOW_CONTROL_ERROR on `offset.checked_add_usize(len)`).  For those frames accept/reject is not
// asserted here, only the field values.
use super::*;
#[cfg(not(kani))]
use crate::kani;
use s2n_codec::{DecoderBuffer, Encoder, EncoderBuffer, EncoderValue};

/// RFC 9000 section 16 variable-length integer: (value, bytes consumed)
fn ref_varint(b: &[u8]) -> Option<(u64, usize)> {
    if b.is_empty() {
        return None;
    }
    let n = 1usize << (b[0] >> 6);
    if b.len() < n {
        return None;
    }
    let mut v = (b[0] & 0x3f) as u64;
    let mut i = 1;
    while i < n {
        v = (v << 8) | b[i] as u64;
        i += 1;
    }
    Some((v, n))
}

const N: usize = 12;
const MAX_VARINT: u64 = (1 << 62) - 1;

struct RefFrame {
    stream_id: u64,
    offset: u64,
    has_len: bool,
    fin: bool,
    /// offset and length of the Stream Data field in the body
    data_at: usize,
    data_len: usize,
    consumed: usize,
    /// offset + length > 2^62-1
    exceeds_limit: bool,
}

/// reference parser of the frame body (everything after the type byte)
fn ref_parse(tag: u8, b: &[u8]) -> Option<RefFrame> {
    let has_off = tag & 0x04 != 0;
    let has_len = tag & 0x02 != 0;
    let fin = tag & 0x01 != 0;
    let mut at = 0usize;
    let (stream_id, n) = ref_varint(&b[at..])?;
    at += n;
    let mut offset = 0u64;
    if has_off {
        let (v, n) = ref_varint(&b[at..])?;
        offset = v;
        at += n;
    }
    let data_len;
    if has_len {
        let (length, n) = ref_varint(&b[at..])?;
        at += n;
        if length > (b.len() - at) as u64 {
            return None;
        }
        data_len = length as usize;
    } else {
        data_len = b.len() - at;
    }
    let data_at = at;
    at += data_len;
    Some(RefFrame {
        stream_id,
        offset,
        has_len,
        fin,
        data_at,
        data_len,
        consumed: at,
        exceeds_limit: offset + data_len as u64 > MAX_VARINT,
    })
}

#[cfg_attr(kani, kani::proof)]
#[cfg_attr(kani, kani::unwind(9))]
fn verif_frame_stream_decode_diff() {
    let bytes: [u8; N] = kani::any();
    let len: usize = kani::any();
    kani::assume(len <= N);
    let tag: u8 = kani::any();
    kani::assume(tag >= 0x08 && tag <= 0x0f);
    let res = DecoderBuffer::new(&bytes[..len]).decode_parameterized::<Stream<DecoderBuffer>>(tag);
    match (res, ref_parse(tag, &bytes[..len])) {
        (Ok((frame, rest)), Some(r)) => {
            kani::cover!(tag == 0x0f && r.data_at == 6 && r.data_len == 2, "OFF|LEN|FIN, three 2-byte varints");
            kani::cover!(tag == 0x08 && r.data_len == N - 1, "no offset, implicit length: data to the end");
            kani::cover!(tag == 0x0c && r.data_len == 0 && len == 9, "offset, implicit length, no data");
            kani::cover!(tag == 0x0b && r.data_len == 0 && r.consumed < len, "empty FIN frame followed by another frame");
            kani::cover!(r.exceeds_limit, "offset + length > 2^62-1 accepted by the codec (left to receive_stream)");
            assert!(frame.stream_id.as_u64() == r.stream_id);
            assert!(frame.offset.as_u64() == r.offset);
            // LEN bit clear <=> the frame extends to the end of the packet
            assert!(frame.is_last_frame == !r.has_len);
            assert!(frame.is_fin == r.fin);
            let data = frame.data.into_less_safe_slice();
            assert!(data.len() == r.data_len);
            let k: usize = kani::any();
            kani::assume(k < r.data_len);
            assert!(data[k] == bytes[r.data_at + k]);
            assert!(rest.len() == len - r.consumed);
        }
        (Err(_), None) => {
            kani::cover!(tag == 0x0a && len == 3 && bytes[0] < 64 && bytes[1] == 2, "rejected: truncated data");
            kani::cover!(tag == 0x0c && len == 2 && bytes[0] < 64 && bytes[1] >= 0x40, "rejected: truncated offset");
            kani::cover!(len == 0, "rejected: no stream id");
        }
        (Ok(_), None) => panic!("decoder accepted a frame the RFC reference rejects"),
        (Err(_), Some(r)) => {
            // only a frame above the 2^62-1 limit may be rejected
            assert!(r.exceeds_limit, "decoder rejected a well-formed frame");
        }
    }
}

#[cfg_attr(kani, kani::proof)]
#[cfg_attr(kani, kani::unwind(9))]
fn verif_frame_stream_roundtrip() {
    let stream_id: u64 = kani::any();
    let offset: u64 = kani::any();
    kani::assume(stream_id <= MAX_VARINT && offset <= MAX_VARINT);
    let is_last_frame: bool = kani::any();
    let is_fin: bool = kani::any();
    let payload: [u8; 4] = kani::any();
    let data_len: usize = kani::any();
    kani::assume(data_len <= 4);
    let frame: StreamRef = Stream {
        stream_id: VarInt::new(stream_id).unwrap(),
        offset: VarInt::new(offset).unwrap(),
        is_last_frame,
        is_fin,
        data: &payload[..data_len],
    };
    const CAP: usize = 1 + 8 + 8 + 1 + 4;
    let mut storage = [0u8; CAP];
    let size = frame.encoding_size();
    let cap: usize = kani::any();
    kani::assume(cap >= size && cap <= CAP);
    let written = {
        let mut enc = EncoderBuffer::new(&mut storage[..cap]);
        enc.encode(&frame);
        enc.len()
    };
    assert!(size == written);
    kani::cover!(written == CAP, "8-byte id and offset, length, 4 data bytes");
    kani::cover!(offset == 0 && is_last_frame && written == 2 && cap == 2, "smallest frame, exact fit");
    kani::cover!(offset != 0 && is_last_frame && is_fin && data_len == 4, "OFF|FIN, implicit length");
    // RFC layout of the type byte: 0b00001XXX with OFF / LEN / FIN; the Offset field is omitted
    // exactly when the offset is 0
    let expected_tag = 0x08u8
        | if offset != 0 { 0x04 } else { 0 }
        | if !is_last_frame { 0x02 } else { 0 }
        | if is_fin { 0x01 } else { 0 };
    assert!(storage[0] == expected_tag);
    match ref_parse(storage[0], &storage[1..written]) {
        Some(r) => {
            assert!(r.stream_id == stream_id);
            assert!(r.offset == offset);
            assert!(r.fin == is_fin);
            assert!(r.data_len == data_len);
            assert!(r.consumed == written - 1);
            let k: usize = kani::any();
            kani::assume(k < data_len);
            assert!(storage[1 + r.data_at + k] == payload[k]);
        }
        None => panic!("encoder output is not a well-formed frame"),
    }
    let (back, rest) = DecoderBuffer::new(&storage[1..written])
        .decode_parameterized::<Stream<DecoderBuffer>>(storage[0])
        .unwrap();
    assert!(rest.is_empty());
    assert!(back.stream_id.as_u64() == stream_id);
    assert!(back.offset.as_u64() == offset);
    assert!(back.is_last_frame == is_last_frame);
    assert!(back.is_fin == is_fin);
    let data = back.data.into_less_safe_slice();
    assert!(data.len() == data_len);
    let k: usize = kani::any();
    kani::assume(k < data_len);
    assert!(data[k] == payload[k]);
}

// announced size for LARGE payloads (the round trip above is limited to 4 data bytes): for any
// stream id, offset and flags and any data length up to 20 000 bytes - across the 63/64 and
// 16383/16384 boundaries of the Length varint - encoding_size() equals the RFC 9000 19.8 layout:
// type + id + [offset] + [length] + data. Only the size computation is executed (no 20 000-byte copy).
static ZEROS: [u8; 20_000] = [0u8; 20_000];

fn varint_len(v: u64) -> usize {
    if v < 1 << 6 {
        1
    } else if v < 1 << 14 {
        2
    } else if v < 1 << 30 {
        4
    } else {
        8
    }
}

#[cfg_attr(kani, kani::proof)]
#[cfg_attr(kani, kani::unwind(9))]
fn verif_frame_stream_announced_size() {
    let stream_id: u64 = kani::any();
    let offset: u64 = kani::any();
    kani::assume(stream_id <= MAX_VARINT && offset <= MAX_VARINT);
    let is_last_frame: bool = kani::any();
    let is_fin: bool = kani::any();
    let data_len: usize = kani::any();
    kani::assume(data_len <= 20_000);
    let frame: StreamRef = Stream {
        stream_id: VarInt::new(stream_id).unwrap(),
        offset: VarInt::new(offset).unwrap(),
        is_last_frame,
        is_fin,
        data: &ZEROS[..data_len],
    };
    let size = frame.encoding_size();
    let expect = 1
        + varint_len(stream_id)
        + if offset != 0 { varint_len(offset) } else { 0 }
        + if !is_last_frame { varint_len(data_len as u64) } else { 0 }
        + data_len;
    assert!(size == expect);
    kani::cover!(!is_last_frame && data_len == 63, "largest payload with a 1-byte length");
    kani::cover!(!is_last_frame && data_len == 16384, "smallest payload with a 4-byte length");
}

// ---- generated by tools/fixup.py: native replay entry ----
#[cfg(not(kani))]
#[test]
fn verif_replay() {
    kani::replay(&[
        ("verif_frame_stream_decode_diff", verif_frame_stream_decode_diff),
        ("verif_frame_stream_roundtrip", verif_frame_stream_roundtrip),
        ("verif_frame_stream_announced_size", verif_frame_stream_announced_size),
    ]);
}
