// C10-O1: CUBIC one-step harnesses from an arbitrary controller state.
// Stubs (Kani only): HybridSlowStart::use_hystart_parameter (std::env lookup, Kani ICE otherwise)
// -> false (the production default when S2N_UNSTABLE_USE_HYSTART_PP is unset);
// core::f32::math::cbrt (no CBMC model) -> arbitrary value satisfying cbrt's sign/magnitude contract.
use super::*;
#[cfg(not(kani))]
use crate::kani;
use crate::{event::testing::Publisher, recovery::congestion_controller::PathPublisher, time::Clock as _};

fn stub_hystart() -> bool {
    false
}

#[cfg(kani)]
fn stub_cbrt(x: f32) -> f32 {
    let y: f32 = kani::any();
    kani::assume(if x >= 0.0 {
        y >= 0.0 && y <= x.max(1.0)
    } else if x < 0.0 {
        y <= 0.0 && y >= x.min(-1.0)
    } else {
        y != y
    });
    y
}

struct Pre {
    cwnd: f32,
    bif: u32,
    min: f32,
    state_kind: u8,
}

/// arbitrary controller: mds in [1200, 9000], cwnd an integer-valued f32 in [2*mds, 2^30],
/// bytes_in_flight <= 2^30, any phase except congestion avoidance timing details
fn any_cc(allow_ca: bool) -> (CubicCongestionController, Pre) {
    let mds: u16 = kani::any();
    kani::assume(mds >= 1200 && mds <= 9000);
    let mut cc = CubicCongestionController::new(mds, Default::default());
    let cwnd: u32 = kani::any();
    kani::assume(cwnd >= 2 * mds as u32 && cwnd <= 1 << 30);
    cc.congestion_window = cwnd as f32;
    let bif: u32 = kani::any();
    kani::assume(bif <= 1 << 30);
    cc.bytes_in_flight = Counter::new(bif);
    let hi: u32 = kani::any();
    kani::assume(hi <= 1 << 30);
    cc.bytes_in_flight_hi = Counter::new(hi);
    let now = crate::time::NoopClock.get_time();
    let st: u8 = kani::any();
    kani::assume(st < if allow_ca { 4 } else { 3 });
    cc.state = match st {
        0 => SlowStart,
        1 => Recovery(now, RequiresTransmission),
        2 => Recovery(now, Idle),
        _ => State::congestion_avoidance(now),
    };
    cc.under_utilized = kani::any();
    // previous window maxima: arbitrary finite non-negative packet counts
    let w_max: f32 = kani::any();
    let w_last_max: f32 = kani::any();
    kani::assume(w_max >= 0.0 && w_max <= 1048576.0 && w_last_max >= 0.0 && w_last_max <= 1048576.0);
    cc.cubic.w_max = w_max;
    cc.cubic.w_last_max = w_last_max;
    let min = cc.cubic.minimum_window();
    let cw = cc.congestion_window;
    (cc, Pre { cwnd: cw, bif, min, state_kind: st })
}

// loss / ECN: never increases the window, never below the minimum, at most one reduction per
// recovery period, persistent congestion collapses to the minimum; in-flight accounting exact.
#[cfg_attr(kani, kani::proof)]
#[cfg_attr(kani, kani::unwind(2))]
#[cfg_attr(kani, kani::stub(crate::recovery::hybrid_slow_start::HybridSlowStart::use_hystart_parameter, stub_hystart))]
#[cfg_attr(kani, kani::stub(core::f32::math::cbrt, stub_cbrt))]
fn verif_cubic_congestion_event_step() {
    let (mut cc, pre) = any_cc(true);
    let was_recovery = pre.state_kind == 1 || pre.state_kind == 2;
    let mut publisher = Publisher::no_snapshot();
    let mut pp = PathPublisher::new(&mut publisher, crate::path::Id::test_id());
    let mut rng = crate::random::testing::Generator(1);
    let now = crate::time::NoopClock.get_time();
    let ecn: bool = kani::any();
    let mut persistent = false;
    if ecn {
        let ce: u64 = kani::any();
        cc.on_explicit_congestion(ce, now, &mut pp);
        assert!(*cc.bytes_in_flight == pre.bif);
    } else {
        let lost: u32 = kani::any();
        kani::assume(lost >= 1 && lost <= pre.bif);
        persistent = kani::any();
        cc.on_packet_lost(lost, (), persistent, false, &mut rng, now, &mut pp);
        assert!(*cc.bytes_in_flight == pre.bif - lost);
    }
    assert!(cc.congestion_window >= pre.min);
    assert!(cc.congestion_window <= pre.cwnd);
    if persistent {
        assert!(cc.congestion_window == pre.min);
        assert!(cc.state.is_slow_start());
    } else if was_recovery {
        // at most one reduction per round trip (recovery period)
        assert!(cc.congestion_window == pre.cwnd);
    } else {
        // a new congestion event starts a recovery period and reduces the window (RFC 9002 7.3.2),
        // floored at the minimum window; the reduction factor is the implementation's choice
        // (today beta = 0.7, RFC 8312 4.5) - a full collapse is reserved for persistent congestion
        assert!(matches!(cc.state, Recovery(_, RequiresTransmission)));
        assert!(cc.congestion_window < pre.cwnd || cc.congestion_window == pre.min);
        assert!(cc.congestion_window >= pre.cwnd * 0.5 || cc.congestion_window == pre.min);
    }
    kani::cover!(!persistent && !was_recovery && cc.congestion_window > pre.min, "window reduced by beta");
    kani::cover!(!persistent && !was_recovery && cc.congestion_window == pre.min, "reduction floored at minimum");
    kani::cover!(persistent, "persistent congestion");
    kani::cover!(ecn && was_recovery, "ECN during recovery ignored");
    core::mem::forget(publisher);
}

// acknowledgements: exact in-flight accounting; no growth while application-limited; no growth in
// recovery; slow start grows by at most the acknowledged bytes and never shrinks.
#[cfg_attr(kani, kani::proof)]
#[cfg_attr(kani, kani::unwind(2))]
#[cfg_attr(kani, kani::stub(crate::recovery::hybrid_slow_start::HybridSlowStart::use_hystart_parameter, stub_hystart))]
fn verif_cubic_ack_step() {
    let (mut cc, pre) = any_cc(false);
    let thr: u32 = kani::any();
    kani::assume(thr >= 16 * 1200);
    cc.slow_start.threshold = if kani::any() { f32::MAX } else { thr as f32 };
    let mut publisher = Publisher::no_snapshot();
    let mut pp = PathPublisher::new(&mut publisher, crate::path::Id::test_id());
    let mut rng = crate::random::testing::Generator(1);
    let now = crate::time::NoopClock.get_time();
    let acked: u32 = kani::any();
    kani::assume(acked >= 1 && acked <= pre.bif);
    let under = cc.under_utilized;
    let rtt = RttEstimator::default();
    // the acknowledged packet was sent before the recovery period started (time_sent == start)
    cc.on_ack(now, acked as usize, (), &rtt, &mut rng, now, &mut pp);
    assert!(*cc.bytes_in_flight == pre.bif - acked);
    assert!(cc.congestion_window >= pre.min);
    if under {
        assert!(cc.congestion_window == pre.cwnd);
    } else if pre.state_kind != 0 {
        // Recovery: packets sent before the recovery start do not end it and do not grow the window
        assert!(cc.congestion_window == pre.cwnd);
        assert!(matches!(cc.state, Recovery(_, _)));
    } else {
        assert!(cc.congestion_window >= pre.cwnd);
        assert!(cc.congestion_window <= pre.cwnd + acked as f32);
    }
    kani::cover!(!under && pre.state_kind == 0 && cc.congestion_window > pre.cwnd, "slow start growth");
    kani::cover!(!under && pre.state_kind == 0 && !cc.state.is_slow_start(), "slow start exited at threshold");
    kani::cover!(under, "application limited");
    core::mem::forget(publisher);
}

// discard and MTU change
#[cfg_attr(kani, kani::proof)]
#[cfg_attr(kani, kani::unwind(2))]
#[cfg_attr(kani, kani::stub(crate::recovery::hybrid_slow_start::HybridSlowStart::use_hystart_parameter, stub_hystart))]
fn verif_cubic_discard_mtu_step() {
    let (mut cc, pre) = any_cc(true);
    let mut publisher = Publisher::no_snapshot();
    let mut pp = PathPublisher::new(&mut publisher, crate::path::Id::test_id());
    if kani::any() {
        let n: u32 = kani::any();
        kani::assume(n <= pre.bif);
        cc.on_packet_discarded(n as usize, &mut pp);
        assert!(*cc.bytes_in_flight == pre.bif - n);
        assert!(cc.congestion_window == pre.cwnd);
        assert!(!cc.requires_fast_retransmission());
        kani::cover!(pre.state_kind == 1, "discard clears the fast-retransmission request");
    } else {
        let mds: u16 = kani::any();
        kani::assume(mds >= 1200 && mds <= 9000);
        cc.on_mtu_update(mds, &mut pp);
        assert!(*cc.bytes_in_flight == pre.bif);
        // never below the minimum window of the NEW datagram size
        assert!(cc.congestion_window >= 2.0 * mds as f32);
        assert!(cc.cubic.minimum_window() == 2.0 * mds as f32);
        kani::cover!(cc.congestion_window > 10.0 * mds as f32, "window scaled with the MTU");
    }
    core::mem::forget(publisher);
}

// ---- generated by tools/fixup.py: native replay entry ----
#[cfg(not(kani))]
#[test]
fn verif_replay() {
    kani::replay(&[
        ("verif_cubic_congestion_event_step", verif_cubic_congestion_event_step),
        ("verif_cubic_ack_step", verif_cubic_ack_step),
        ("verif_cubic_discard_mtu_step", verif_cubic_discard_mtu_step),
    ]);
}
