// C05-O4 (Initial packet, RFC 9000 17.2.2): the real header decoder / encoder vs the independent
// reference parser in packet_ref.rs.
//   Initial Packet {
//     Header Form (1) = 1, Fixed Bit (1) = 1, Long Packet Type (2) = 0, Reserved Bits (2),
//     Packet Number Length (2), Version (32), Destination Connection ID Length (8),
//     Destination Connection ID (0..160), Source Connection ID Length (8),
//     Source Connection ID (0..160), Token Length (i), Token (..), Length (i),
//     Packet Number (8..32), Packet Payload (8..),
//   }
// NOTE on connection id lengths: `ProtectedInitial::decode` deliberately does NOT apply the version 1
// limit of 20 bytes ("servers SHOULD be able to read longer connection IDs from other QUIC versions"
// to form a Version Negotiation packet, RFC 9000 17.2): at this layer the reference is the RFC 8999
// invariant (8-bit length, 0..=255).  The version 1 limit is applied by the endpoint after version
// negotiation (`LocalId::try_from_bytes` / `PeerId::try_from_bytes` in s2n-quic-transport), which is
// outside this crate.
use super::*;
#[cfg(not(kani))]
use crate::kani;
use s2n_codec::{DecoderBufferMut, Encoder, EncoderBuffer, EncoderValue};

#[path = "/verif/harness/core/packet_ref.rs"]
mod packet_ref;
use packet_ref::*;

/// what the dispatcher (`PacketDecoder::decode_packet`) hands to the per-type decoder: the first
/// byte and the big-endian version it peeked; it has checked that these 5 bytes exist
/// (packet_dispatch.rs decides that part)
fn peeked_version(b: &[u8]) -> u32 {
    ((b[1] as u32) << 24) | ((b[2] as u32) << 16) | ((b[3] as u32) << 8) | b[4] as u32
}

/// returns whether the header was accepted (by both)
fn diff<const N: usize>(orig: [u8; N], len: usize) -> bool {
    let mut bytes = orig;
    let version = peeked_version(&orig);
    let res = ProtectedInitial::decode(orig[0], version, DecoderBufferMut::new(&mut bytes[..len]));
    match (res, ref_numbered(&orig[..len], true, INVARIANT_MAX_CID)) {
        (Ok((packet, rest)), Some(r)) => {
            kani::cover!(r.front.dcid_len > 0 && r.front.scid_len > 0 && r.length > 0, "both connection ids and a payload");
            kani::cover!(r.packet_len < len, "coalesced: bytes left for the next packet");
            kani::cover!(r.header_len - (r.token_at + r.token_len) == 2 && r.length > 0, "2-byte Length field");
            kani::cover!(r.length == 0, "empty remainder accepted at this layer");
            kani::cover!(r.token_len > 0 && r.length > 0, "token present");
            kani::cover!(r.token_len == 0 && r.token_at - r.front.end == 2, "2-byte Token Length of zero (non-minimal varint)");
            assert!(packet.version == r.front.version);
            let dcid = packet.destination_connection_id();
            assert!(dcid.len() == r.front.dcid_len);
            let k: usize = kani::any();
            if k < r.front.dcid_len {
                assert!(dcid[k] == orig[r.front.dcid_at + k]);
            }
            let scid = packet.source_connection_id();
            assert!(scid.len() == r.front.scid_len);
            if k < r.front.scid_len {
                assert!(scid[k] == orig[r.front.scid_at + k]);
            }
            let token = packet.token();
            assert!(token.len() == r.token_len);
            if k < r.token_len {
                assert!(token[k] == orig[r.token_at + k]);
            }
            // header / packet / datagram boundaries
            assert!(packet.payload.header_len == r.header_len);
            assert!(packet.payload.len() == r.packet_len);
            assert!(rest.len() == len - r.packet_len);
            let j: usize = kani::any();
            if j < r.packet_len {
                assert!(packet.payload.buffer.peek().into_less_safe_slice()[j] == orig[j]);
            }
            if j < len - r.packet_len {
                assert!(rest.peek().into_less_safe_slice()[j] == orig[r.packet_len + j]);
            }
            true
        }
        (Err(_), None) => {
            kani::cover!(len > 7 && orig[5] == 0 && orig[6] == 0 && orig[7] == 0, "rejected: Length field truncated or beyond the datagram");
            kani::cover!(len > 7 && orig[5] == 0 && orig[6] == 0 && orig[7] as usize > len, "rejected: token longer than the datagram");
            false
        }
        (Ok(_), None) => panic!("decoder accepted a header the RFC reference rejects"),
        (Err(_), Some(_)) => panic!("decoder rejected a well-formed header"),
    }
}

// every byte string of 5..=24 bytes whose first byte says Initial
const N: usize = 24;

#[cfg_attr(kani, kani::proof)]
#[cfg_attr(kani, kani::unwind(9))]
fn verif_packet_initial_decode_diff() {
    let orig: [u8; N] = kani::any();
    let len: usize = kani::any();
    kani::assume(len >= 5 && len <= N);
    kani::assume(orig[0] >> 4 == 0b1100);
    diff(orig, len);
}

// Connection ids longer than 20 bytes are ACCEPTED here (see the note at the top): a datagram with
// room for two 21-byte connection ids, 5 + 1 + 21 + 1 + 21 + 1 + 1 + 1 = 52.
const N_CID: usize = 52;

#[cfg_attr(kani, kani::proof)]
#[cfg_attr(kani, kani::unwind(9))]
#[allow(unused_variables)]
fn verif_packet_initial_cid_bound() {
    let orig: [u8; N_CID] = kani::any();
    let len: usize = kani::any();
    kani::assume(len >= 5 && len <= N_CID);
    kani::assume(orig[0] >> 4 == 0b1100);
    let accepted = diff(orig, len);
    let dl = orig[5] as usize;
    if dl <= 43 {
        let sl = orig[6 + dl] as usize;
        kani::cover!(accepted && dl == 20 && sl == 20, "20/20-byte connection ids accepted");
        kani::cover!(accepted && dl == 21 && sl == 21, "21/21-byte connection ids accepted at this layer (other versions)");
        kani::cover!(accepted && dl == 43 && sl == 0, "43-byte destination connection id accepted at this layer");
        kani::cover!(!accepted && len == N_CID && dl == 43 && sl == 1, "rejected: header does not fit the datagram");
    }
}

// encode -> reference parse -> decode.  `EncoderValue for Initial<_, _, _, TruncatedPacketNumber, _>` is the
// keyless whole-packet encoder; its header part is `Initial::encode_header`, the function the
// production `PacketEncoder::encode_packet` emits the header with (packet_encoding.rs drives that one).
const CID: usize = 20;
const PAYLOAD: usize = 4;
const TOKEN: usize = 4;
const CAP: usize = 1 + 4 + 1 + CID + 1 + CID + 1 + TOKEN + 1 + 4 + PAYLOAD;

#[cfg_attr(kani, kani::proof)]
#[cfg_attr(kani, kani::unwind(22))]
fn verif_packet_initial_roundtrip() {
    use crate::packet::number::TruncatedPacketNumber;
    let version: u32 = kani::any();
    let dcid_bytes: [u8; CID] = kani::any();
    let scid_bytes: [u8; CID] = kani::any();
    let payload_bytes: [u8; PAYLOAD] = kani::any();
    let token_bytes: [u8; TOKEN] = kani::any();
    let tl: usize = kani::any();
    kani::assume(tl <= TOKEN);
    let dl: usize = kani::any();
    let sl: usize = kani::any();
    let pl: usize = kani::any();
    kani::assume(dl <= CID && sl <= CID && pl <= PAYLOAD);
    let raw: u32 = kani::any();
    let pn_len: usize = kani::any();
    kani::assume(pn_len >= 1 && pn_len <= 4);
    let space = PacketNumberSpace::Initial;
    let (tpn, pn_val) = match pn_len {
        1 => (TruncatedPacketNumber::new(raw as u8, space), (raw as u8) as u32),
        2 => (TruncatedPacketNumber::new(raw as u16, space), (raw as u16) as u32),
        3 => (
            TruncatedPacketNumber::new(s2n_codec::u24::new_truncated(raw), space),
            raw & 0xff_ffff,
        ),
        _ => (TruncatedPacketNumber::new(raw, space), raw),
    };
    let packet = Initial {
        version,
        destination_connection_id: &dcid_bytes[..dl],
        source_connection_id: &scid_bytes[..sl],
        token: &token_bytes[..tl],
        packet_number: tpn,
        payload: &payload_bytes[..pl],
    };
    let mut storage = [0u8; CAP];
    let size = packet.encoding_size();
    let written = {
        let mut enc = EncoderBuffer::new(&mut storage);
        enc.encode(&packet);
        enc.len()
    };
    kani::cover!(written == CAP, "largest packet: 20/20-byte connection ids, 4-byte token, 4-byte packet number, 4-byte payload");
    kani::cover!(written == 10, "smallest packet");
    assert!(size == written);
    // 17.2.2 first byte: form 1, fixed 1, type 0, reserved 00, packet number length - 1
    assert!(storage[0] == 0b1100_0000 | (pn_len as u8 - 1));
    let orig = storage;
    match ref_numbered(&orig[..written], true, INVARIANT_MAX_CID) {
        Some(r) => {
            assert!(r.front.version == version);
            assert!(r.front.dcid_len == dl && r.front.scid_len == sl);
            let k: usize = kani::any();
            if k < dl {
                assert!(orig[r.front.dcid_at + k] == dcid_bytes[k]);
            }
            if k < sl {
                assert!(orig[r.front.scid_at + k] == scid_bytes[k]);
            }
            // Length = packet number + payload, in the shortest varint form (values < 64: 1 byte)
            assert!(r.length == (pn_len + pl) as u64);
            // Token Length in the shortest varint form, then the token
            assert!(r.token_at == r.front.end + 1 && r.token_len == tl);
            if k < tl {
                assert!(orig[r.token_at + k] == token_bytes[k]);
            }
            assert!(r.header_len == r.token_at + tl + 1);
            assert!(r.packet_len == written);
            // packet number big endian, then the payload
            let mut want: u32 = 0;
            let mut i = 0;
            while i < pn_len {
                want = (want << 8) | orig[r.header_len + i] as u32;
                i += 1;
            }
            assert!(want == pn_val);
            if k < pl {
                assert!(orig[r.header_len + pn_len + k] == payload_bytes[k]);
            }
        }
        None => panic!("encoder output is not a well-formed Initial packet"),
    }
    let (back, rest) = ProtectedInitial::decode(orig[0], peeked_version(&orig), DecoderBufferMut::new(&mut storage[..written])).unwrap();
    assert!(rest.is_empty());
    assert!(back.version == version);
    assert!(back.destination_connection_id().len() == dl);
    assert!(back.source_connection_id().len() == sl);
    let k: usize = kani::any();
    if k < dl {
        assert!(back.destination_connection_id()[k] == dcid_bytes[k]);
    }
    if k < sl {
        assert!(back.source_connection_id()[k] == scid_bytes[k]);
    }
    assert!(back.token().len() == tl);
    if k < tl {
        assert!(back.token()[k] == token_bytes[k]);
    }
    assert!(back.payload.header_len == written - pn_len - pl);
    assert!(back.payload.len() == written);
}

// ---- generated by tools/fixup.py: native replay entry ----
#[cfg(not(kani))]
#[test]
fn verif_replay() {
    kani::replay(&[
        ("verif_packet_initial_decode_diff", verif_packet_initial_decode_diff),
        ("verif_packet_initial_cid_bound", verif_packet_initial_cid_bound),
        ("verif_packet_initial_roundtrip", verif_packet_initial_roundtrip),
    ]);
}
