// C05-O4 (production packet encoder): `PacketEncoder::encode_packet` - the function every packet
// space sends with - run with an identity AEAD and an all-zero header-protection mask, so that its
// output can be read by the independent reference parser in packet_ref.rs.  Decided: the header
// bytes are the RFC 9000 17.2 / 17.3.1 layout of the fields given, the Length field (written first as
// a placeholder sized for the remaining capacity, then overwritten in place) announces exactly the
// bytes that follow it, the returned packet / remaining-buffer split is where the packet ends, the
// payload is untouched, and every packet is at least 22 + 5 bytes + tag long (RFC 9000 10.3, so that
// a stateless reset answering it can be smaller yet indistinguishable).  AEAD and header-protection
// arithmetic are decided elsewhere (C05-O7 header_crypto.rs, C15 keyset.rs).
use super::*;
#[cfg(not(kani))]
use crate::kani;
use crate::{
    crypto::{
        packet_protection, scatter, HandshakeHeaderKey, HandshakeKey, HeaderKey as CryptoHeaderKey,
        HeaderProtectionMask, OneRttHeaderKey, OneRttKey,
    },
    packet::{
        handshake::Handshake,
        number::PacketNumberSpace,
        short::{Short, SpinBit},
        KeyPhase,
    },
    varint::VarInt,
};

#[path = "/verif/harness/core/packet_ref.rs"]
mod packet_ref;
use packet_ref::*;

/// identity AEAD with a tag of `tag_len` bytes (left as they are in the buffer)
struct NullKey {
    tag_len: usize,
}

impl CryptoKey for NullKey {
    fn decrypt(&self, _pn: u64, _h: &[u8], _p: &mut [u8]) -> Result<(), packet_protection::Error> {
        Ok(())
    }
    fn encrypt(&mut self, _pn: u64, _h: &[u8], p: &mut scatter::Buffer) -> Result<(), packet_protection::Error> {
        p.flatten();
        Ok(())
    }
    fn tag_len(&self) -> usize {
        self.tag_len
    }
    fn aead_confidentiality_limit(&self) -> u64 {
        u64::MAX
    }
    fn aead_integrity_limit(&self) -> u64 {
        u64::MAX
    }
    fn cipher_suite(&self) -> crate::crypto::tls::CipherSuite {
        crate::crypto::tls::CipherSuite::Unknown
    }
}
impl HandshakeKey for NullKey {}
impl OneRttKey for NullKey {
    fn derive_next_key(&self) -> Self {
        NullKey { tag_len: self.tag_len }
    }
}

/// header protection with an all-zero mask; samples `sample_len` bytes like a real key
struct NullHeaderKey {
    sample_len: usize,
}

impl CryptoHeaderKey for NullHeaderKey {
    fn opening_header_protection_mask(&self, _sample: &[u8]) -> HeaderProtectionMask {
        [0; 5]
    }
    fn opening_sample_len(&self) -> usize {
        self.sample_len
    }
    fn sealing_header_protection_mask(&self, _sample: &[u8]) -> HeaderProtectionMask {
        [0; 5]
    }
    fn sealing_sample_len(&self) -> usize {
        self.sample_len
    }
}
impl HandshakeHeaderKey for NullHeaderKey {}
impl OneRttHeaderKey for NullHeaderKey {}

const CID: usize = 4;
const PAYLOAD: usize = 40;
const CAP: usize = 80;

/// RFC 9000 17.1 / A.2: bytes needed so that the range 2 * (pn - largest_acked) is representable
/// (decided against the real `truncate` in C08-O1; used here to know what the header must say)
fn ref_pn_len(pn: u64, la: u64) -> Option<usize> {
    let d = 2 * (pn - la) as u128;
    if d < 1 << 8 {
        Some(1)
    } else if d < 1 << 16 {
        Some(2)
    } else if d < 1 << 24 {
        Some(3)
    } else if d < 1 << 32 {
        Some(4)
    } else {
        None
    }
}

#[cfg_attr(kani, kani::proof)]
#[cfg_attr(kani, kani::unwind(6))]
fn verif_packet_encoding_handshake() {
    let version: u32 = kani::any();
    let dcid_bytes: [u8; CID] = kani::any();
    let scid_bytes: [u8; CID] = kani::any();
    let payload_bytes: [u8; PAYLOAD] = kani::any();
    let dl: usize = kani::any();
    let sl: usize = kani::any();
    let pl: usize = kani::any();
    kani::assume(dl <= CID && sl <= CID && pl <= PAYLOAD);
    let pn: u64 = kani::any();
    let la: u64 = kani::any();
    kani::assume(la < pn && pn < (1 << 62));
    let space = PacketNumberSpace::Handshake;
    let packet_number = space.new_packet_number(VarInt::new(pn).unwrap());
    let largest_acked = space.new_packet_number(VarInt::new(la).unwrap());
    let tag_len: usize = if kani::any() { 16 } else { 0 };
    let sample_len: usize = if kani::any() { 16 } else { 0 };
    let min_packet_len: Option<usize> = if kani::any() { Some(kani::any()) } else { None };
    if let Some(m) = min_packet_len {
        kani::assume(m <= CAP);
    }
    let cap: usize = kani::any();
    kani::assume(cap <= CAP);
    let packet = Handshake {
        version,
        destination_connection_id: &dcid_bytes[..dl],
        source_connection_id: &scid_bytes[..sl],
        packet_number,
        payload: &payload_bytes[..pl],
    };
    let mut key = NullKey { tag_len };
    let header_key = NullHeaderKey { sample_len };
    let mut storage = [0u8; CAP];
    let res = packet.encode_packet(&mut key, &header_key, largest_acked, min_packet_len, EncoderBuffer::new(&mut storage[..cap]));
    let floor = 1 + 4 + 20 + 1 + 1 + tag_len; // RFC 9000 10.3 + 1 (see encoding.rs)
    match res {
        Ok((protected, remaining)) => {
            let packet_len = protected.len();
            let header_len = protected.header_len;
            let remaining_cap = remaining.remaining_capacity();
            let remaining_pos = remaining.len();
            core::mem::drop(protected);
            core::mem::drop(remaining);
            kani::cover!(tag_len == 16 && sample_len == 16 && dl == CID && sl == CID, "tag and sample of 16 bytes, both connection ids");
            kani::cover!(cap >= 64 && packet_len < 64, "2-byte Length placeholder overwritten with a value < 64");
            kani::cover!(cap < 64, "1-byte Length placeholder");
            kani::cover!(packet_len == cap, "packet fills the buffer exactly");
            let pn_len = match ref_pn_len(pn, la) {
                Some(n) => n,
                None => panic!("sent a packet whose number cannot be truncated"),
            };
            kani::cover!(pn_len == 4, "4-byte packet number");
            // where the packet ends and what is left of the buffer
            assert!(packet_len <= cap);
            assert!(remaining_pos == 0 && remaining_cap == cap - packet_len);
            // minimum sizes
            assert!(packet_len >= floor);
            if let Some(m) = min_packet_len {
                assert!(packet_len >= m);
            }
            // 17.2.4 first byte (mask is zero): form 1, fixed 1, type 2, reserved 00, pn length - 1
            assert!(storage[0] == 0b1110_0000 | (pn_len as u8 - 1));
            match ref_numbered(&storage[..cap], false, V1_MAX_CID) {
                Some(r) => {
                    assert!(r.front.version == version);
                    assert!(r.front.dcid_len == dl && r.front.scid_len == sl);
                    let k: usize = kani::any();
                    if k < dl {
                        assert!(storage[r.front.dcid_at + k] == dcid_bytes[k]);
                    }
                    if k < sl {
                        assert!(storage[r.front.scid_at + k] == scid_bytes[k]);
                    }
                    // the Length field announces exactly the rest of the packet
                    assert!(r.header_len == header_len);
                    assert!(r.packet_len == packet_len);
                    assert!(r.length == (pn_len + pl + tag_len) as u64);
                    // truncated packet number, big endian
                    let mut got: u64 = 0;
                    let mut i = 0;
                    while i < pn_len {
                        got = (got << 8) | storage[header_len + i] as u64;
                        i += 1;
                    }
                    assert!(got == pn & ((1u64 << (8 * pn_len)) - 1));
                    // payload as given
                    let j: usize = kani::any();
                    if j < pl {
                        assert!(storage[header_len + pn_len + j] == payload_bytes[j]);
                    }
                }
                None => panic!("encoder output is not a well-formed Handshake packet"),
            }
        }
        Err(e) => {
            // nothing is left behind in the buffer
            let buffer = e.take_buffer();
            assert!(buffer.len() == 0 && buffer.remaining_capacity() == cap);
            kani::cover!(ref_pn_len(pn, la).is_none(), "refused: packet number too far ahead of the largest acknowledged");
            kani::cover!(ref_pn_len(pn, la).is_some() && pl == PAYLOAD && cap == 40, "refused: buffer too small");
            kani::cover!(ref_pn_len(pn, la).is_some() && pl == 1 && cap == CAP, "refused: payload smaller than the minimum packet needs");
        }
    }
}

#[cfg_attr(kani, kani::proof)]
#[cfg_attr(kani, kani::unwind(6))]
fn verif_packet_encoding_short() {
    let dcid_bytes: [u8; CID] = kani::any();
    let payload_bytes: [u8; PAYLOAD] = kani::any();
    let dl: usize = kani::any();
    let pl: usize = kani::any();
    kani::assume(dl <= CID && pl <= PAYLOAD);
    let spin: bool = kani::any();
    let phase: bool = kani::any();
    let pn: u64 = kani::any();
    let la: u64 = kani::any();
    kani::assume(la < pn && pn < (1 << 62));
    let space = PacketNumberSpace::ApplicationData;
    let packet_number = space.new_packet_number(VarInt::new(pn).unwrap());
    let largest_acked = space.new_packet_number(VarInt::new(la).unwrap());
    let tag_len: usize = if kani::any() { 16 } else { 0 };
    let sample_len: usize = if kani::any() { 16 } else { 0 };
    let min_packet_len: Option<usize> = if kani::any() { Some(kani::any()) } else { None };
    if let Some(m) = min_packet_len {
        kani::assume(m <= CAP);
    }
    let cap: usize = kani::any();
    kani::assume(cap <= CAP);
    let packet = Short {
        spin_bit: if spin { SpinBit::One } else { SpinBit::Zero },
        key_phase: if phase { KeyPhase::One } else { KeyPhase::Zero },
        destination_connection_id: &dcid_bytes[..dl],
        packet_number,
        payload: &payload_bytes[..pl],
    };
    let mut key = NullKey { tag_len };
    let header_key = NullHeaderKey { sample_len };
    let mut storage = [0u8; CAP];
    let res = packet.encode_packet(&mut key, &header_key, largest_acked, min_packet_len, EncoderBuffer::new(&mut storage[..cap]));
    let floor = 1 + 4 + 20 + 1 + 1 + tag_len;
    match res {
        Ok((protected, remaining)) => {
            let packet_len = protected.len();
            let header_len = protected.header_len;
            let remaining_cap = remaining.remaining_capacity();
            let remaining_pos = remaining.len();
            core::mem::drop(protected);
            core::mem::drop(remaining);
            kani::cover!(tag_len == 16 && sample_len == 16 && dl == CID && spin && phase, "tag and sample of 16 bytes, spin and key phase set");
            kani::cover!(packet_len == cap, "packet fills the buffer exactly");
            let pn_len = match ref_pn_len(pn, la) {
                Some(n) => n,
                None => panic!("sent a packet whose number cannot be truncated"),
            };
            kani::cover!(pn_len == 2, "2-byte packet number");
            assert!(packet_len <= cap);
            assert!(remaining_pos == 0 && remaining_cap == cap - packet_len);
            assert!(packet_len >= floor);
            if let Some(m) = min_packet_len {
                assert!(packet_len >= m);
            }
            // 17.3.1 first byte (mask is zero)
            let want0 = 0b0100_0000u8 | ((spin as u8) << 5) | ((phase as u8) << 2) | (pn_len as u8 - 1);
            assert!(storage[0] == want0);
            match ref_short(&storage[..packet_len], Some(dl)) {
                Some(r) => {
                    assert!(r.header_len == header_len);
                    let k: usize = kani::any();
                    if k < dl {
                        assert!(storage[r.dcid_at + k] == dcid_bytes[k]);
                    }
                    // no Length field: packet = header + packet number + payload + tag
                    assert!(packet_len == header_len + pn_len + pl + tag_len);
                    let mut got: u64 = 0;
                    let mut i = 0;
                    while i < pn_len {
                        got = (got << 8) | storage[header_len + i] as u64;
                        i += 1;
                    }
                    assert!(got == pn & ((1u64 << (8 * pn_len)) - 1));
                    let j: usize = kani::any();
                    if j < pl {
                        assert!(storage[header_len + pn_len + j] == payload_bytes[j]);
                    }
                }
                None => panic!("encoder output is not a well-formed 1-RTT packet"),
            }
        }
        Err(e) => {
            let buffer = e.take_buffer();
            assert!(buffer.len() == 0 && buffer.remaining_capacity() == cap);
            kani::cover!(ref_pn_len(pn, la).is_none(), "refused: packet number too far ahead of the largest acknowledged");
            kani::cover!(ref_pn_len(pn, la).is_some() && pl == PAYLOAD && cap == 40, "refused: buffer too small");
            kani::cover!(ref_pn_len(pn, la).is_some() && pl == 1 && cap == CAP, "refused: payload smaller than the minimum packet needs");
        }
    }
}

// ---- generated by tools/fixup.py: native replay entry ----
#[cfg(not(kani))]
#[test]
fn verif_replay() {
    kani::replay(&[
        ("verif_packet_encoding_handshake", verif_packet_encoding_handshake),
        ("verif_packet_encoding_short", verif_packet_encoding_short),
    ]);
}
