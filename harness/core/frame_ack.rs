// C05-O3 (ACK): the real per-type decoder / encoder vs an independently written
// RFC 9000 section 19.3 reference.
//   ACK Frame {
//     Type (i) = 0x02..0x03, Largest Acknowledged (i), ACK Delay (i), ACK Range Count (i),
//     First ACK Range (i), ACK Range (..) ..., [ECN Counts (..)],
//   }
//   ACK Range { Gap (i), ACK Range Length (i) }
//   ECN Counts { ECT0 Count (i), ECT1 Count (i), ECN-CE Count (i) }     (type 0x03 only)
//   19.3.1:  smallest = largest - ack_range;   largest = previous_smallest - gap - 2
//   "If any computed packet number is negative, an endpoint MUST generate a connection error of
//    type FRAME_ENCODING_ERROR."
use super::*;
#[cfg(not(kani))]
use crate::kani;
use s2n_codec::{DecoderBuffer, Encoder, EncoderBuffer, EncoderValue};

/// RFC 9000 section 16 variable-length integer: (value, bytes consumed).
/// Written without a loop so that the unwinding bound of these harnesses is set by the range loops.
fn ref_varint(b: &[u8]) -> Option<(u64, usize)> {
    if b.is_empty() {
        return None;
    }
    let v0 = (b[0] & 0x3f) as u64;
    match b[0] >> 6 {
        0 => Some((v0, 1)),
        1 => {
            if b.len() < 2 {
                return None;
            }
            Some(((v0 << 8) | b[1] as u64, 2))
        }
        2 => {
            if b.len() < 4 {
                return None;
            }
            Some((
                (v0 << 24) | ((b[1] as u64) << 16) | ((b[2] as u64) << 8) | b[3] as u64,
                4,
            ))
        }
        _ => {
            if b.len() < 8 {
                return None;
            }
            Some((
                (v0 << 56)
                    | ((b[1] as u64) << 48)
                    | ((b[2] as u64) << 40)
                    | ((b[3] as u64) << 32)
                    | ((b[4] as u64) << 24)
                    | ((b[5] as u64) << 16)
                    | ((b[6] as u64) << 8)
                    | b[7] as u64,
                8,
            ))
        }
    }
}

const N: usize = 10;
/// 4 mandatory varints take >= 4 bytes and every additional range >= 2: at most (N-4)/2 = 3
/// additional ranges fit into N bytes (larger ACK Range Count values are truncated frames)
const MAXR: usize = 4;

struct RefFrame {
    largest: u64,
    ack_delay: u64,
    /// number of acknowledged ranges (ACK Range Count + 1) and their inclusive bounds,
    /// in frame order (descending packet numbers)
    ranges: usize,
    smallest_of: [u64; MAXR],
    largest_of: [u64; MAXR],
    /// body offsets of the First ACK Range field and of the end of the last ACK Range
    ranges_at: usize,
    ranges_end: usize,
    ecn: Option<(u64, u64, u64)>,
    consumed: usize,
}

/// reference parser of the frame body (everything after the type byte)
fn ref_parse(tag: u8, b: &[u8]) -> Option<RefFrame> {
    let mut at = 0usize;
    let (largest_acknowledged, n) = ref_varint(&b[at..])?;
    at += n;
    let (ack_delay, n) = ref_varint(&b[at..])?;
    at += n;
    let (range_count, n) = ref_varint(&b[at..])?;
    at += n;
    let ranges_at = at;
    let (first_range, n) = ref_varint(&b[at..])?;
    at += n;
    let mut smallest_of = [0u64; MAXR];
    let mut largest_of = [0u64; MAXR];
    // smallest = largest - ack_range, negative => error
    if first_range > largest_acknowledged {
        return None;
    }
    let mut largest = largest_acknowledged;
    let mut smallest = largest - first_range;
    smallest_of[0] = smallest;
    largest_of[0] = largest;
    let mut i = 0u64;
    while i < range_count {
        let (gap, n) = ref_varint(&b[at..])?;
        at += n;
        let (range_len, n) = ref_varint(&b[at..])?;
        at += n;
        // largest = previous_smallest - gap - 2, negative => error (u128: no wrap in the oracle)
        if (smallest as u128) < gap as u128 + 2 {
            return None;
        }
        largest = smallest - gap - 2;
        if range_len > largest {
            return None;
        }
        smallest = largest - range_len;
        i += 1;
        smallest_of[i as usize] = smallest;
        largest_of[i as usize] = largest;
    }
    let ranges_end = at;
    let ecn = if tag == 0x03 {
        let (ect0, n) = ref_varint(&b[at..])?;
        at += n;
        let (ect1, n) = ref_varint(&b[at..])?;
        at += n;
        let (ce, n) = ref_varint(&b[at..])?;
        at += n;
        Some((ect0, ect1, ce))
    } else {
        None
    };
    Some(RefFrame {
        largest: largest_acknowledged,
        ack_delay,
        ranges: range_count as usize + 1,
        smallest_of,
        largest_of,
        ranges_at,
        ranges_end,
        ecn,
        consumed: at,
    })
}

#[cfg_attr(kani, kani::proof)]
#[cfg_attr(kani, kani::unwind(7))]
fn verif_frame_ack_decode_diff() {
    let bytes: [u8; N] = kani::any();
    let len: usize = kani::any();
    kani::assume(len <= N);
    let tag: u8 = kani::any();
    kani::assume(tag >= 0x02 && tag <= 0x03);
    let res = DecoderBuffer::new(&bytes[..len]).decode_parameterized::<Ack<AckRangesDecoder>>(tag);
    match (res, ref_parse(tag, &bytes[..len])) {
        (Ok((frame, rest)), Some(r)) => {
            kani::cover!(r.ranges == 1 && tag == 0x02 && r.consumed == 4, "single range, 1-byte fields");
            kani::cover!(r.ranges == 2 && tag == 0x03, "1 additional range + ECN counts");
            kani::cover!(r.ranges == 3 && tag == 0x02, "2 additional ranges");
            kani::cover!(r.ranges == MAXR, "3 additional ranges");
            assert!(frame.largest_acknowledged().as_u64() == r.largest);
            assert!(frame.ack_delay.as_u64() == r.ack_delay);
            // the range iterator is handed exactly: the largest acknowledged, ACK Range Count + 1
            // and the bytes from the First ACK Range field up to the end of the last ACK Range
            // (what iterating that state yields is verif_frame_ack_range_step, for any state)
            let captured = frame.ack_ranges;
            assert!(captured.largest_acknowledged.as_u64() == r.largest);
            assert!(captured.ack_range_count.as_u64() == r.ranges as u64);
            let range_bytes = captured.range_buffer.into_less_safe_slice();
            assert!(range_bytes.len() == r.ranges_end - r.ranges_at);
            let k: usize = kani::any();
            kani::assume(k < r.ranges_end - r.ranges_at);
            assert!(range_bytes[k] == bytes[r.ranges_at + k]);
            // and the first range read through the public iterator
            match frame.ack_ranges().next() {
                Some(range) => {
                    assert!(range.start().as_u64() == r.smallest_of[0]);
                    assert!(range.end().as_u64() == r.largest_of[0]);
                }
                None => panic!("no first range"),
            }
            match (frame.ecn_counts, r.ecn) {
                (Some(e), Some((ect0, ect1, ce))) => {
                    assert!(e.ect_0_count.as_u64() == ect0);
                    assert!(e.ect_1_count.as_u64() == ect1);
                    assert!(e.ce_count.as_u64() == ce);
                }
                (None, None) => {}
                _ => panic!("ECN Counts presence does not follow the frame type"),
            }
            assert!(rest.len() == len - r.consumed);
            assert!(frame.tag() == tag);
        }
        (Err(_), None) => {
            kani::cover!(len == 6 && bytes[0] == 9 && bytes[2] == 1 && bytes[3] == 0 && bytes[4] == 8, "rejected: gap below packet 0");
            kani::cover!(tag == 0x03 && len == 6 && bytes[0] == 1 && bytes[1] == 0 && bytes[2] == 0 && bytes[3] == 0 && bytes[4] < 64 && bytes[5] < 64, "rejected: truncated ECN counts");
        }
        (Ok(_), None) => panic!("decoder accepted a frame the RFC reference rejects"),
        (Err(_), Some(_)) => panic!("decoder rejected a well-formed frame"),
    }
}

// ---- a minimal AckRanges implementation to drive the (generic) encoder: <= 3 ranges in an array
const RT_RANGES: usize = 3;

#[derive(Clone, Copy)]
struct ArrRanges {
    n: usize,
    start: [VarInt; RT_RANGES],
    end: [VarInt; RT_RANGES],
}

struct ArrIter {
    r: ArrRanges,
    i: usize,
}

impl Iterator for ArrIter {
    type Item = RangeInclusive<VarInt>;
    fn next(&mut self) -> Option<Self::Item> {
        if self.i < self.r.n {
            let i = self.i;
            self.i += 1;
            Some(self.r.start[i]..=self.r.end[i])
        } else {
            None
        }
    }
    fn size_hint(&self) -> (usize, Option<usize>) {
        let n = self.r.n - self.i;
        (n, Some(n))
    }
}

impl ExactSizeIterator for ArrIter {}

impl AckRanges for ArrRanges {
    type Iter = ArrIter;
    fn ack_ranges(&self) -> ArrIter {
        ArrIter { r: *self, i: 0 }
    }
}

/// arbitrary valid frame value: 1..=3 ranges, descending, separated by at least one
/// unacknowledged packet (the encoder's contract: that is what an ACK frame can express),
/// every number below `limit`
struct AnyAck {
    n: usize,
    lo: [u64; RT_RANGES],
    hi: [u64; RT_RANGES],
    ack_delay: u64,
    ecn: Option<[u64; 3]>,
}

fn any_ack(limit: u64) -> (AnyAck, Ack<ArrRanges>) {
    let n: usize = kani::any();
    kani::assume(n >= 1 && n <= RT_RANGES);
    let lo: [u64; RT_RANGES] = kani::any();
    let hi: [u64; RT_RANGES] = kani::any();
    let mut i = 0;
    while i < RT_RANGES {
        kani::assume(lo[i] <= hi[i] && hi[i] < limit);
        if i > 0 && i < n {
            kani::assume(hi[i] + 2 <= lo[i - 1]);
        }
        i += 1;
    }
    let ack_delay: u64 = kani::any();
    kani::assume(ack_delay < limit);
    let has_ecn: bool = kani::any();
    let ecn: [u64; 3] = kani::any();
    kani::assume(ecn[0] < limit && ecn[1] < limit && ecn[2] < limit);
    let v = |x: u64| VarInt::new(x).unwrap();
    let frame = Ack {
        ack_delay: v(ack_delay),
        ack_ranges: ArrRanges {
            n,
            start: [v(lo[0]), v(lo[1]), v(lo[2])],
            end: [v(hi[0]), v(hi[1]), v(hi[2])],
        },
        ecn_counts: if has_ecn {
            Some(EcnCounts {
                ect_0_count: v(ecn[0]),
                ect_1_count: v(ecn[1]),
                ce_count: v(ecn[2]),
            })
        } else {
            None
        },
    };
    (
        AnyAck {
            n,
            lo,
            hi,
            ack_delay,
            ecn: if has_ecn { Some(ecn) } else { None },
        },
        frame,
    )
}

/// what the encoder wrote, read back by the RFC reference, is the frame value
fn check_layout(a: &AnyAck, storage: &[u8], written: usize) {
    // RFC layout: 0x03 carries ECN counts, 0x02 does not
    assert!(storage[0] == if a.ecn.is_some() { 0x03 } else { 0x02 });
    match ref_parse(storage[0], &storage[1..written]) {
        Some(r) => {
            assert!(r.largest == a.hi[0]);
            assert!(r.ack_delay == a.ack_delay);
            assert!(r.ranges == a.n);
            let k: usize = kani::any();
            kani::assume(k < a.n);
            assert!(r.smallest_of[k] == a.lo[k]);
            assert!(r.largest_of[k] == a.hi[k]);
            match (r.ecn, a.ecn) {
                (Some((x, y, z)), Some(e)) => assert!(x == e[0] && y == e[1] && z == e[2]),
                (None, None) => {}
                _ => panic!("ECN Counts presence does not follow the frame value"),
            }
            assert!(r.consumed == written - 1);
        }
        None => panic!("encoder output is not a well-formed frame"),
    }
}

// Encoder, full value range: announced size == bytes written, and the bytes are the RFC layout of
// the value (read back by the reference parser).  The real decoder is not part of this harness:
// decoding a buffer whose field offsets all depend on symbolic values costs ~100k SAT variables per
// varint and the decoder's validation loop is unwound to the global bound (measured out of reach
// at this buffer size); decoder == reference is C05-O3-ack-diff / -step, and the full
// encode -> real decode round trip is verif_frame_ack_roundtrip_decode on one-byte fields.
// STATUS: no obligation yet -- 1.2M variables, not decided within 900 s (driver) / 15 min (direct
// run) on a loaded machine; shrink the value range (e.g. < 2^30) or raise the budget before listing.
#[cfg_attr(kani, kani::proof)]
#[cfg_attr(kani, kani::unwind(7))]
fn verif_frame_ack_roundtrip() {
    let (a, frame) = any_ack(1 << 62);
    const CAP: usize = 1 + 8 * (4 + 2 * (RT_RANGES - 1) + 3);
    let mut storage = [0u8; CAP];
    let size = frame.encoding_size();
    let written = {
        let mut enc = EncoderBuffer::new(&mut storage);
        enc.encode(&frame);
        enc.len()
    };
    assert!(size == written);
    kani::cover!(a.n == 3 && a.ecn.is_some(), "3 ranges + ECN counts");
    kani::cover!(a.n == 1 && a.ecn.is_none() && written == 5, "single range, 1-byte fields");
    kani::cover!(a.n == 2 && a.hi[1] + 2 == a.lo[0], "ranges one packet apart: gap field 0");
    kani::cover!(written == CAP, "every field in the 8-byte form");
    check_layout(&a, &storage, written);
}

// encode -> REAL decoder -> the same value, field by field through the public API, for every frame
// value whose numbers are all < 64 (one-byte fields: the layout is then fixed by the range count)
#[cfg_attr(kani, kani::proof)]
#[cfg_attr(kani, kani::unwind(7))]
fn verif_frame_ack_roundtrip_decode() {
    let (a, frame) = any_ack(64);
    const CAP: usize = 1 + (4 + 2 * (RT_RANGES - 1) + 3);
    let mut storage = [0u8; CAP];
    let size = frame.encoding_size();
    let written = {
        let mut enc = EncoderBuffer::new(&mut storage);
        enc.encode(&frame);
        enc.len()
    };
    assert!(size == written);
    kani::cover!(a.n == 3 && a.ecn.is_some() && written == CAP, "3 ranges + ECN counts");
    kani::cover!(a.n == 2 && a.ecn.is_none(), "2 ranges, no ECN counts");
    let (back, rest) = DecoderBuffer::new(&storage[1..written])
        .decode_parameterized::<Ack<AckRangesDecoder>>(storage[0])
        .unwrap();
    assert!(rest.is_empty());
    assert!(back.ack_delay.as_u64() == a.ack_delay);
    assert!(back.largest_acknowledged().as_u64() == a.hi[0]);
    let mut it = back.ack_ranges();
    assert!(it.len() == a.n);
    let mut i = 0;
    while i < RT_RANGES {
        if i < a.n {
            let range = it.next().unwrap();
            assert!(range.start().as_u64() == a.lo[i]);
            assert!(range.end().as_u64() == a.hi[i]);
        }
        i += 1;
    }
    assert!(it.next().is_none());
    match (back.ecn_counts, a.ecn) {
        (Some(e), Some(x)) => assert!(
            e.ect_0_count.as_u64() == x[0]
                && e.ect_1_count.as_u64() == x[1]
                && e.ce_count.as_u64() == x[2]
        ),
        (None, None) => {}
        _ => panic!("ECN Counts presence changed in the round trip"),
    }
}

/// RFC 9000 section 19.3.1, one step of reading the ranges: given the largest packet number of the
/// current range, the number of ranges still to read (this one included) and the remaining bytes,
/// returns (smallest, largest) of this range, the largest of the next range (if there is one) and
/// the bytes consumed; None when the input is exhausted, truncated or a packet number would be
/// negative.
fn ref_step(largest: u64, remaining: u64, b: &[u8]) -> Option<(u64, u64, Option<u64>, usize)> {
    if remaining == 0 {
        return None;
    }
    let (range_len, n) = ref_varint(b)?;
    let mut at = n;
    if range_len > largest {
        return None;
    }
    let smallest = largest - range_len;
    let mut next_largest = None;
    if remaining > 1 {
        let (gap, n) = ref_varint(&b[at..])?;
        at += n;
        if (smallest as u128) < gap as u128 + 2 {
            return None;
        }
        next_largest = Some(smallest - gap - 2);
    }
    Some((smallest, largest, next_largest, at))
}

const N_STEP: usize = 16;

// AckRangesIter::next from an ARBITRARY iterator state == the RFC step.  Together with the capture
// check of verif_frame_ack_decode_diff this gives, by induction over the ranges, that iterating a
// decoded frame yields the RFC's ranges for any number of ranges.
#[cfg_attr(kani, kani::proof)]
#[cfg_attr(kani, kani::unwind(7))]
fn verif_frame_ack_range_step() {
    let bytes: [u8; N_STEP] = kani::any();
    let len: usize = kani::any();
    kani::assume(len <= N_STEP);
    let largest: u64 = kani::any();
    let remaining: u64 = kani::any();
    kani::assume(largest < (1 << 62) && remaining < (1 << 62));
    let mut it = AckRangesIter {
        largest_acknowledged: VarInt::new(largest).unwrap(),
        ack_range_count: VarInt::new(remaining).unwrap(),
        range_buffer: DecoderBuffer::new(&bytes[..len]),
    };
    let got = it.next();
    match (got, ref_step(largest, remaining, &bytes[..len])) {
        (Some(range), Some((smallest, end, next_largest, consumed))) => {
            kani::cover!(remaining == 1 && consumed == 8, "last range, 8-byte length");
            kani::cover!(remaining > 1 && consumed == 16, "8-byte length and gap");
            kani::cover!(next_largest == Some(0), "next range ends at packet 0");
            assert!(range.start().as_u64() == smallest);
            assert!(range.end().as_u64() == end);
            assert!(it.ack_range_count.as_u64() == remaining - 1);
            assert!(it.range_buffer.len() == len - consumed);
            if let Some(next) = next_largest {
                assert!(it.largest_acknowledged.as_u64() == next);
            }
            assert!(it.len() == (remaining - 1) as usize);
        }
        (None, None) => {
            kani::cover!(remaining == 0 && len > 0, "exhausted");
            kani::cover!(remaining == 2 && len == 2 && bytes[0] == 0 && bytes[1] == 0 && largest == 1, "rejected: next range below packet 0");
            kani::cover!(remaining == 1 && len == 1 && bytes[0] == 5 && largest == 4, "rejected: range below packet 0");
        }
        (Some(_), None) => panic!("iterator yields a range the RFC reference rejects"),
        (None, Some(_)) => panic!("iterator stops on a well-formed range"),
    }
}

// ---- generated by tools/fixup.py: native replay entry ----
#[cfg(not(kani))]
#[test]
fn verif_replay() {
    kani::replay(&[
        ("verif_frame_ack_decode_diff", verif_frame_ack_decode_diff),
        ("verif_frame_ack_roundtrip", verif_frame_ack_roundtrip),
        ("verif_frame_ack_roundtrip_decode", verif_frame_ack_roundtrip_decode),
        ("verif_frame_ack_range_step", verif_frame_ack_range_step),
    ]);
}
