// C05-O4 (Handshake packet, RFC 9000 17.2.4): the real header decoder / encoder vs the independent
// reference parser in packet_ref.rs.
//   Handshake Packet {
//     Header Form (1) = 1, Fixed Bit (1) = 1, Long Packet Type (2) = 2, Reserved Bits (2),
//     Packet Number Length (2), Version (32), Destination Connection ID Length (8),
//     Destination Connection ID (0..160), Source Connection ID Length (8),
//     Source Connection ID (0..160), Length (i), Packet Number (8..32), Packet Payload (8..),
//   }
use super::*;
#[cfg(not(kani))]
use crate::kani;
use s2n_codec::{DecoderBufferMut, Encoder, EncoderBuffer, EncoderValue};

#[path = "/verif/harness/core/packet_ref.rs"]
mod packet_ref;
use packet_ref::*;

/// what the dispatcher (`PacketDecoder::decode_packet`) hands to the per-type decoder: the first
/// byte and the big-endian version it peeked; it has checked that these 5 bytes exist
/// (packet_dispatch.rs decides that part)
fn peeked_version(b: &[u8]) -> u32 {
    ((b[1] as u32) << 24) | ((b[2] as u32) << 16) | ((b[3] as u32) << 8) | b[4] as u32
}

/// returns whether the header was accepted (by both)
fn diff<const N: usize>(orig: [u8; N], len: usize) -> bool {
    let mut bytes = orig;
    let version = peeked_version(&orig);
    let res = ProtectedHandshake::decode(orig[0], version, DecoderBufferMut::new(&mut bytes[..len]));
    match (res, ref_numbered(&orig[..len], false, V1_MAX_CID)) {
        (Ok((packet, rest)), Some(r)) => {
            kani::cover!(r.front.dcid_len > 0 && r.front.scid_len > 0 && r.length > 0, "both connection ids and a payload");
            kani::cover!(r.packet_len < len, "coalesced: bytes left for the next packet");
            kani::cover!(r.header_len - r.front.end == 2 && r.length > 0, "2-byte Length field");
            kani::cover!(r.length == 0, "empty remainder accepted at this layer");
            assert!(packet.version == r.front.version);
            let dcid = packet.destination_connection_id();
            assert!(dcid.len() == r.front.dcid_len);
            let k: usize = kani::any();
            if k < r.front.dcid_len {
                assert!(dcid[k] == orig[r.front.dcid_at + k]);
            }
            let scid = packet.source_connection_id();
            assert!(scid.len() == r.front.scid_len);
            if k < r.front.scid_len {
                assert!(scid[k] == orig[r.front.scid_at + k]);
            }
            // header / packet / datagram boundaries
            assert!(packet.payload.header_len == r.header_len);
            assert!(packet.payload.len() == r.packet_len);
            assert!(rest.len() == len - r.packet_len);
            let j: usize = kani::any();
            if j < r.packet_len {
                assert!(packet.payload.buffer.peek().into_less_safe_slice()[j] == orig[j]);
            }
            if j < len - r.packet_len {
                assert!(rest.peek().into_less_safe_slice()[j] == orig[r.packet_len + j]);
            }
            true
        }
        (Err(_), None) => {
            kani::cover!(len > 6 && orig[5] == 0 && orig[6] == 0, "rejected: Length field truncated or beyond the datagram");
            false
        }
        (Ok(_), None) => panic!("decoder accepted a header the RFC reference rejects"),
        (Err(_), Some(_)) => panic!("decoder rejected a well-formed header"),
    }
}

// every byte string of 5..=24 bytes whose first byte says Handshake
const N: usize = 24;

#[cfg_attr(kani, kani::proof)]
#[cfg_attr(kani, kani::unwind(9))]
fn verif_packet_handshake_decode_diff() {
    let orig: [u8; N] = kani::any();
    let len: usize = kani::any();
    kani::assume(len >= 5 && len <= N);
    kani::assume(orig[0] >> 4 == 0b1110);
    diff(orig, len);
}

// The 24-byte bound cannot hold a complete header with a 21-byte connection id, so there the rule
// "> 20 MUST be dropped" only shows up together with truncation.  Here the datagram has room for two
// 21-byte connection ids and a one-byte Length: 5 + 1 + 21 + 1 + 21 + 1 + 2 = 52.
const N_CID: usize = 52;

#[cfg_attr(kani, kani::proof)]
#[cfg_attr(kani, kani::unwind(9))]
#[allow(unused_variables)]
fn verif_packet_handshake_cid_bound() {
    let orig: [u8; N_CID] = kani::any();
    let len: usize = kani::any();
    kani::assume(len >= 5 && len <= N_CID);
    kani::assume(orig[0] >> 4 == 0b1110);
    let accepted = diff(orig, len);
    let dl = orig[5] as usize;
    if dl <= 21 {
        let sl = orig[6 + dl] as usize;
        kani::cover!(accepted && dl == 20 && sl == 20, "20/20-byte connection ids accepted");
        kani::cover!(!accepted && len == N_CID && dl == 21 && sl == 0 && orig[28] == 0, "rejected: 21-byte destination connection id in a complete header");
        kani::cover!(!accepted && len == N_CID && dl == 0 && sl == 21 && orig[28] == 0, "rejected: 21-byte source connection id in a complete header");
    }
}

// encode -> reference parse -> decode.  `EncoderValue for Handshake<_, _, TruncatedPacketNumber, _>` is the
// keyless whole-packet encoder; its header part is `Handshake::encode_header`, the function the
// production `PacketEncoder::encode_packet` emits the header with (packet_encoding.rs drives that one).
const CID: usize = 20;
const PAYLOAD: usize = 4;
const CAP: usize = 1 + 4 + 1 + CID + 1 + CID + 1 + 4 + PAYLOAD;

#[cfg_attr(kani, kani::proof)]
#[cfg_attr(kani, kani::unwind(22))]
fn verif_packet_handshake_roundtrip() {
    use crate::packet::number::TruncatedPacketNumber;
    let version: u32 = kani::any();
    let dcid_bytes: [u8; CID] = kani::any();
    let scid_bytes: [u8; CID] = kani::any();
    let payload_bytes: [u8; PAYLOAD] = kani::any();
    let dl: usize = kani::any();
    let sl: usize = kani::any();
    let pl: usize = kani::any();
    kani::assume(dl <= CID && sl <= CID && pl <= PAYLOAD);
    let raw: u32 = kani::any();
    let pn_len: usize = kani::any();
    kani::assume(pn_len >= 1 && pn_len <= 4);
    let space = PacketNumberSpace::Handshake;
    let (tpn, pn_val) = match pn_len {
        1 => (TruncatedPacketNumber::new(raw as u8, space), (raw as u8) as u32),
        2 => (TruncatedPacketNumber::new(raw as u16, space), (raw as u16) as u32),
        3 => (
            TruncatedPacketNumber::new(s2n_codec::u24::new_truncated(raw), space),
            raw & 0xff_ffff,
        ),
        _ => (TruncatedPacketNumber::new(raw, space), raw),
    };
    let packet = Handshake {
        version,
        destination_connection_id: &dcid_bytes[..dl],
        source_connection_id: &scid_bytes[..sl],
        packet_number: tpn,
        payload: &payload_bytes[..pl],
    };
    let mut storage = [0u8; CAP];
    let size = packet.encoding_size();
    let written = {
        let mut enc = EncoderBuffer::new(&mut storage);
        enc.encode(&packet);
        enc.len()
    };
    kani::cover!(written == CAP, "largest packet: 20/20-byte connection ids, 4-byte packet number, 4-byte payload");
    kani::cover!(written == 9, "smallest packet");
    assert!(size == written);
    // 17.2.4 first byte: form 1, fixed 1, type 2, reserved 00, packet number length - 1
    assert!(storage[0] == 0b1110_0000 | (pn_len as u8 - 1));
    let orig = storage;
    match ref_numbered(&orig[..written], false, V1_MAX_CID) {
        Some(r) => {
            assert!(r.front.version == version);
            assert!(r.front.dcid_len == dl && r.front.scid_len == sl);
            let k: usize = kani::any();
            if k < dl {
                assert!(orig[r.front.dcid_at + k] == dcid_bytes[k]);
            }
            if k < sl {
                assert!(orig[r.front.scid_at + k] == scid_bytes[k]);
            }
            // Length = packet number + payload, in the shortest varint form (values < 64: 1 byte)
            assert!(r.length == (pn_len + pl) as u64);
            assert!(r.header_len == r.front.end + 1);
            assert!(r.packet_len == written);
            // packet number big endian, then the payload
            let mut want: u32 = 0;
            let mut i = 0;
            while i < pn_len {
                want = (want << 8) | orig[r.header_len + i] as u32;
                i += 1;
            }
            assert!(want == pn_val);
            if k < pl {
                assert!(orig[r.header_len + pn_len + k] == payload_bytes[k]);
            }
        }
        None => panic!("encoder output is not a well-formed Handshake packet"),
    }
    let (back, rest) = ProtectedHandshake::decode(orig[0], peeked_version(&orig), DecoderBufferMut::new(&mut storage[..written])).unwrap();
    assert!(rest.is_empty());
    assert!(back.version == version);
    assert!(back.destination_connection_id().len() == dl);
    assert!(back.source_connection_id().len() == sl);
    let k: usize = kani::any();
    if k < dl {
        assert!(back.destination_connection_id()[k] == dcid_bytes[k]);
    }
    if k < sl {
        assert!(back.source_connection_id()[k] == scid_bytes[k]);
    }
    assert!(back.payload.header_len == written - pn_len - pl);
    assert!(back.payload.len() == written);
}


// receive path after the header decode: removing header protection from ANY accepted packet never
// panics; RFC 9001 5.4.2: the sample starts 4 bytes after the start of the Packet Number field
// ("the Packet Number field is assumed to be 4 bytes long") and "an endpoint MUST discard packets
// that are not long enough to contain a complete sample"; 5.4.1: the low 4 bits of a long header's
// first byte and the packet number bytes are unmasked, the packet number length is read AFTER
// unmasking the first byte.
struct MaskKey {
    mask: crate::crypto::HeaderProtectionMask,
    sample_len: usize,
}

impl crate::crypto::HeaderKey for MaskKey {
    fn opening_header_protection_mask(&self, sample: &[u8]) -> crate::crypto::HeaderProtectionMask {
        // the key is handed a sample of exactly the length it asked for
        assert!(sample.len() == self.sample_len);
        self.mask
    }
    fn opening_sample_len(&self) -> usize {
        self.sample_len
    }
    fn sealing_header_protection_mask(&self, _sample: &[u8]) -> crate::crypto::HeaderProtectionMask {
        self.mask
    }
    fn sealing_sample_len(&self) -> usize {
        self.sample_len
    }
}
impl crate::crypto::HandshakeHeaderKey for MaskKey {}

const N_UNPROTECT: usize = 32;

#[cfg_attr(kani, kani::proof)]
#[cfg_attr(kani, kani::unwind(9))]
fn verif_packet_handshake_unprotect() {
    let orig: [u8; N_UNPROTECT] = kani::any();
    let len: usize = kani::any();
    kani::assume(len >= 5 && len <= N_UNPROTECT);
    kani::assume(orig[0] >> 4 == 0b1110);
    let key = MaskKey {
        mask: kani::any(),
        sample_len: if kani::any() { 16 } else { 0 },
    };
    let largest: u64 = kani::any();
    // below 2^61 so that the expanded number is never clamped at the 2^62-1 ceiling
    kani::assume(largest < (1 << 61));
    let largest = PacketNumberSpace::Handshake.new_packet_number(VarInt::new(largest).unwrap());
    let mut bytes = orig;
    if let Ok((packet, _rest)) = ProtectedHandshake::decode(orig[0], peeked_version(&orig), DecoderBufferMut::new(&mut bytes[..len])) {
        let r = match ref_numbered(&orig[..len], false, V1_MAX_CID) {
            Some(r) => r,
            None => panic!("decoder accepted a header the RFC reference rejects"),
        };
        let long_enough = r.length >= (4 + key.sample_len) as u64;
        match packet.unprotect(&key, largest) {
            Ok(encrypted) => {
                kani::cover!(key.sample_len == 16 && key.mask[0] & 0x03 != 0, "16-byte sample, packet number length bits masked");
                kani::cover!(key.sample_len == 0 && r.length == 4, "shortest packet that can be unprotected");
                assert!(long_enough);
                let first = orig[0] ^ (key.mask[0] & 0x0f);
                let pn_len = (first & 0x03) as usize + 1;
                assert!(encrypted.payload.get_tag() == first);
                assert!(encrypted.payload.header_len == r.header_len);
                assert!(encrypted.payload.packet_number_len.bytesize() == pn_len);
                // the truncated packet number is the unmasked field, expanded against `largest`
                // (expansion itself: C08-O1 / C05-O5)
                let mut want: u64 = 0;
                let mut i = 0;
                while i < pn_len {
                    want = (want << 8) | (orig[r.header_len + i] ^ key.mask[1 + i]) as u64;
                    i += 1;
                }
                assert!(encrypted.packet_number.as_u64() & ((1u64 << (8 * pn_len)) - 1) == want);
                // nothing but the first byte and the packet number bytes changed
                let j: usize = kani::any();
                if j >= 1 && j < r.packet_len && !(j >= r.header_len && j < r.header_len + pn_len) {
                    assert!(encrypted.payload.buffer.peek().into_less_safe_slice()[j] == orig[j]);
                }
            }
            Err(_) => {
                kani::cover!(r.length == 3, "discarded: too short for a sample");
                assert!(!long_enough);
            }
        }
    }
}

// transport::Error constructors are #[track_caller]: Location::caller has no Kani model
#[cfg(kani)]
static VERIF_LOC_HS: &core::panic::Location<'static> = core::panic::Location::caller();
#[cfg(kani)]
struct StubLocHs<'a>(core::marker::PhantomData<&'a ()>);
#[cfg(kani)]
impl<'a> StubLocHs<'a> {
    fn caller() -> &'static core::panic::Location<'static> {
        VERIF_LOC_HS
    }
}

// C06 / C04: removing packet protection from a Handshake packet (any header the decoder accepts, any
// header-protection mask): a packet the AEAD does not authenticate is ONLY a decrypt error - its
// unauthenticated reserved bits are never looked at - while an authentic packet with reserved bits
// set is a PROTOCOL_VIOLATION (RFC 9000 17.2: checked after removing packet AND header protection).
#[cfg_attr(kani, kani::proof)]
#[cfg_attr(kani, kani::unwind(9))]
#[cfg_attr(kani, kani::stub(core::panic::Location::caller, StubLocHs::caller))]
fn verif_packet_handshake_decrypt_verdict() {
    use crate::connection::ProcessingError;
    let orig: [u8; N_UNPROTECT] = kani::any();
    let len: usize = kani::any();
    kani::assume(len >= 5 && len <= N_UNPROTECT);
    kani::assume(orig[0] >> 4 == 0b1110);
    let hkey = MaskKey { mask: kani::any(), sample_len: 0 };
    let largest = PacketNumberSpace::Handshake.new_packet_number(VarInt::from_u8(0));
    let mut bytes = orig;
    if let Ok((packet, _rest)) = ProtectedHandshake::decode(orig[0], peeked_version(&orig), DecoderBufferMut::new(&mut bytes[..len])) {
        if let Ok(encrypted) = packet.unprotect(&hkey, largest) {
            let first = orig[0] ^ (hkey.mask[0] & 0x0f);
            let reserved = first & 0x0c;
            let mut key = crate::crypto::key::testing::Key::default();
            key.fail_on_decrypt = kani::any();
            let authentic = !key.fail_on_decrypt;
            match encrypted.decrypt(&key) {
                Ok(_) => {
                    assert!(authentic && reserved == 0);
                    kani::cover!(true, "authentic packet accepted");
                }
                Err(ProcessingError::DecryptError) => {
                    assert!(!authentic);
                    kani::cover!(reserved != 0, "forged packet with reserved bits set is only dropped");
                }
                Err(ProcessingError::ConnectionError(e)) => {
                    assert!(authentic && reserved != 0);
                    assert!(matches!(e, crate::connection::Error::Transport { code, .. } if code == crate::transport::Error::PROTOCOL_VIOLATION.code));
                    kani::cover!(true, "authentic packet with reserved bits rejected");
                }
                Err(_) => panic!("unexpected verdict"),
            }
        }
    }
}

// ---- generated by tools/fixup.py: native replay entry ----
#[cfg(not(kani))]
#[test]
fn verif_replay() {
    kani::replay(&[
        ("verif_packet_handshake_decode_diff", verif_packet_handshake_decode_diff),
        ("verif_packet_handshake_cid_bound", verif_packet_handshake_cid_bound),
        ("verif_packet_handshake_roundtrip", verif_packet_handshake_roundtrip),
        ("verif_packet_handshake_unprotect", verif_packet_handshake_unprotect),
        ("verif_packet_handshake_decrypt_verdict", verif_packet_handshake_decrypt_verdict),
    ]);
}
