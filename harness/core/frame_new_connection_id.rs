// C05-O3 / C04 / C13 (NEW_CONNECTION_ID): the real per-type decoder / encoder vs an independently
// written RFC 9000 section 19.15 reference.
//   NEW_CONNECTION_ID Frame {
//     Type (i) = 0x18, Sequence Number (i), Retire Prior To (i), Length (8),
//     Connection ID (8..160), Stateless Reset Token (128),
//   }
//   "Values [of Length] less than 1 and greater than 20 are invalid and MUST be treated as a
//    connection error of type FRAME_ENCODING_ERROR."
//   "Receiving a value in the Retire Prior To field that is greater than that in the Sequence
//    Number field MUST be treated as a connection error of type FRAME_ENCODING_ERROR."
use super::*;
#[cfg(not(kani))]
use crate::kani;
use s2n_codec::{DecoderBuffer, Encoder, EncoderBuffer, EncoderValue};

/// RFC 9000 section 16 variable-length integer: (value, bytes consumed)
fn ref_varint(b: &[u8]) -> Option<(u64, usize)> {
    if b.is_empty() {
        return None;
    }
    let n = 1usize << (b[0] >> 6);
    if b.len() < n {
        return None;
    }
    let mut v = (b[0] & 0x3f) as u64;
    let mut i = 1;
    while i < n {
        v = (v << 8) | b[i] as u64;
        i += 1;
    }
    Some((v, n))
}

/// 2 one-byte varints + length byte + 5-byte connection id + token = 24: every accepted frame in
/// this bound has a connection id of <= 5 bytes (longer announced lengths are truncated frames)
const N: usize = 24;
const TOKEN_LEN: usize = 16;

struct RefFrame {
    sequence_number: u64,
    retire_prior_to: u64,
    /// offset and length of the Connection ID field in the body
    cid_at: usize,
    cid_len: usize,
    /// offset of the 16-byte Stateless Reset Token in the body
    token_at: usize,
    consumed: usize,
}

/// reference parser of the frame body (everything after the type byte)
fn ref_parse(b: &[u8]) -> Option<RefFrame> {
    let mut at = 0usize;
    let (sequence_number, n) = ref_varint(&b[at..])?;
    at += n;
    let (retire_prior_to, n) = ref_varint(&b[at..])?;
    at += n;
    if retire_prior_to > sequence_number {
        return None;
    }
    if at >= b.len() {
        return None;
    }
    let cid_len = b[at] as usize;
    at += 1;
    if cid_len < 1 || cid_len > 20 {
        return None;
    }
    if b.len() - at < cid_len {
        return None;
    }
    let cid_at = at;
    at += cid_len;
    if b.len() - at < TOKEN_LEN {
        return None;
    }
    let token_at = at;
    at += TOKEN_LEN;
    Some(RefFrame {
        sequence_number,
        retire_prior_to,
        cid_at,
        cid_len,
        token_at,
        consumed: at,
    })
}

#[cfg_attr(kani, kani::proof)]
#[cfg_attr(kani, kani::unwind(9))]
fn verif_frame_new_connection_id_decode_diff() {
    let bytes: [u8; N] = kani::any();
    let len: usize = kani::any();
    kani::assume(len <= N);
    let tag: u8 = 0x18;
    let res = DecoderBuffer::new(&bytes[..len]).decode_parameterized::<NewConnectionId>(tag);
    match (res, ref_parse(&bytes[..len])) {
        (Ok((frame, rest)), Some(r)) => {
            kani::cover!(r.cid_len == 5, "5-byte connection id (largest that fits)");
            kani::cover!(r.cid_len == 1 && r.cid_at == 7, "4-byte + 2-byte varint fields");
            kani::cover!(
                r.retire_prior_to == r.sequence_number && r.sequence_number > 63,
                "retire_prior_to == sequence_number accepted"
            );
            kani::cover!(r.consumed < len, "trailing bytes left for the next frame");
            assert!(frame.sequence_number.as_u64() == r.sequence_number);
            assert!(frame.retire_prior_to.as_u64() == r.retire_prior_to);
            assert!(frame.connection_id.len() == r.cid_len);
            let k: usize = kani::any();
            kani::assume(k < r.cid_len);
            assert!(frame.connection_id[k] == bytes[r.cid_at + k]);
            let t: usize = kani::any();
            kani::assume(t < TOKEN_LEN);
            assert!(frame.stateless_reset_token[t] == bytes[r.token_at + t]);
            assert!(rest.len() == len - r.consumed);
            assert!(frame.tag() == tag);
        }
        (Err(_), None) => {
            kani::cover!(len == N && bytes[0] == 5 && bytes[1] == 3 && bytes[2] == 0, "rejected: zero-length connection id");
            kani::cover!(len == N && bytes[0] == 5 && bytes[1] == 3 && bytes[2] == 21, "rejected: connection id length 21 (also truncated in this bound)");
            kani::cover!(
                len == N && bytes[0] == 1 && bytes[1] == 2 && bytes[2] == 4,
                "rejected: retire_prior_to > sequence_number"
            );
            kani::cover!(len == 18 && bytes[0] < 64 && bytes[1] == 0 && bytes[2] == 1, "rejected: truncated token");
        }
        (Ok(_), None) => panic!("decoder accepted a frame the RFC reference rejects"),
        (Err(_), Some(_)) => panic!("decoder rejected a well-formed frame"),
    }
}

#[cfg_attr(kani, kani::proof)]
#[cfg_attr(kani, kani::unwind(9))]
fn verif_frame_new_connection_id_roundtrip() {
    let sequence_number: u64 = kani::any();
    let retire_prior_to: u64 = kani::any();
    kani::assume(sequence_number < (1 << 62));
    // a valid frame (the encoder's contract)
    kani::assume(retire_prior_to <= sequence_number);
    let cid_bytes: [u8; 4] = kani::any();
    let cid_len: usize = kani::any();
    kani::assume(cid_len >= 1 && cid_len <= 4);
    let token: [u8; TOKEN_LEN] = kani::any();
    let frame = NewConnectionId {
        sequence_number: VarInt::new(sequence_number).unwrap(),
        retire_prior_to: VarInt::new(retire_prior_to).unwrap(),
        connection_id: &cid_bytes[..cid_len],
        stateless_reset_token: &token,
    };
    const CAP: usize = 1 + 8 + 8 + 1 + 4 + TOKEN_LEN;
    let mut storage = [0u8; CAP];
    let size = frame.encoding_size();
    let written = {
        let mut enc = EncoderBuffer::new(&mut storage);
        enc.encode(&frame);
        enc.len()
    };
    assert!(size == written);
    kani::cover!(written == CAP, "8-byte varints, 4-byte connection id");
    kani::cover!(written == 1 + 1 + 1 + 1 + 1 + TOKEN_LEN, "smallest frame");
    assert!(storage[0] == 0x18);
    // the bytes written are what the RFC reference reads back
    match ref_parse(&storage[1..written]) {
        Some(r) => {
            assert!(r.sequence_number == sequence_number);
            assert!(r.retire_prior_to == retire_prior_to);
            assert!(r.cid_len == cid_len);
            assert!(r.consumed == written - 1);
            let k: usize = kani::any();
            kani::assume(k < cid_len);
            assert!(storage[1 + r.cid_at + k] == cid_bytes[k]);
            let t: usize = kani::any();
            kani::assume(t < TOKEN_LEN);
            assert!(storage[1 + r.token_at + t] == token[t]);
        }
        None => panic!("encoder output is not a well-formed frame"),
    }
    let (back, rest) = DecoderBuffer::new(&storage[1..written])
        .decode_parameterized::<NewConnectionId>(storage[0])
        .unwrap();
    assert!(rest.is_empty());
    assert!(back.sequence_number.as_u64() == sequence_number);
    assert!(back.retire_prior_to.as_u64() == retire_prior_to);
    assert!(back.connection_id.len() == cid_len);
    let k: usize = kani::any();
    kani::assume(k < cid_len);
    assert!(back.connection_id[k] == cid_bytes[k]);
    let t: usize = kani::any();
    kani::assume(t < TOKEN_LEN);
    assert!(back.stateless_reset_token[t] == token[t]);
}

// The 24-byte bound above cannot hold a connection id longer than 5 bytes, so the upper end of the
// RFC's 1..=20 length rule is only met there together with truncation.  This harness fixes the
// layout instead (one-byte Sequence Number and Retire Prior To, so the Length byte is body[2]) and
// gives the body exactly enough room for a 21-byte connection id: 2 + 1 + 21 + 16 = 40 bytes.
// Every Length value 0..=255 is then classified by the range rule alone for <= 21.
const N_LEN: usize = 40;

#[cfg_attr(kani, kani::proof)]
#[cfg_attr(kani, kani::unwind(9))]
fn verif_frame_new_connection_id_len_bound() {
    let bytes: [u8; N_LEN] = kani::any();
    kani::assume(bytes[0] < 64 && bytes[1] < 64);
    let tag: u8 = 0x18;
    let res = DecoderBuffer::new(&bytes[..]).decode_parameterized::<NewConnectionId>(tag);
    match (res, ref_parse(&bytes[..])) {
        (Ok((frame, rest)), Some(r)) => {
            kani::cover!(r.cid_len == 20, "20-byte connection id accepted");
            kani::cover!(r.cid_len == 1, "1-byte connection id accepted");
            assert!(r.cid_len >= 1 && r.cid_len <= 20);
            assert!(frame.sequence_number.as_u64() == r.sequence_number);
            assert!(frame.retire_prior_to.as_u64() == r.retire_prior_to);
            assert!(frame.connection_id.len() == r.cid_len);
            let k: usize = kani::any();
            kani::assume(k < r.cid_len);
            assert!(frame.connection_id[k] == bytes[r.cid_at + k]);
            let t: usize = kani::any();
            kani::assume(t < TOKEN_LEN);
            assert!(frame.stateless_reset_token[t] == bytes[r.token_at + t]);
            assert!(rest.len() == N_LEN - r.consumed);
        }
        (Err(_), None) => {
            kani::cover!(bytes[2] == 21 && bytes[1] <= bytes[0], "rejected: 21-byte connection id (complete frame)");
            kani::cover!(bytes[2] == 0 && bytes[1] <= bytes[0], "rejected: zero-length connection id");
        }
        (Ok(_), None) => panic!("decoder accepted a frame the RFC reference rejects"),
        (Err(_), Some(_)) => panic!("decoder rejected a well-formed frame"),
    }
}

// ---- generated by tools/fixup.py: native replay entry ----
#[cfg(not(kani))]
#[test]
fn verif_replay() {
    kani::replay(&[
        ("verif_frame_new_connection_id_decode_diff", verif_frame_new_connection_id_decode_diff),
        ("verif_frame_new_connection_id_roundtrip", verif_frame_new_connection_id_roundtrip),
        ("verif_frame_new_connection_id_len_bound", verif_frame_new_connection_id_len_bound),
    ]);
}
