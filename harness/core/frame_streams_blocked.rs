// C05-O3 (STREAMS_BLOCKED): the real per-type decoder / encoder vs an independently written
// RFC 9000 section 19.14 reference.
//   STREAMS_BLOCKED Frame { Type (i) = 0x16..0x17, Maximum Streams (i) }
//   19.14: a Maximum Streams value greater than 2^60 MUST be treated as STREAM_LIMIT_ERROR or FRAME_ENCODING_ERROR
use super::*;
#[cfg(not(kani))]
use crate::kani;
use s2n_codec::{DecoderBuffer, Encoder, EncoderBuffer, EncoderValue};

/// RFC 9000 section 16 variable-length integer: (value, bytes consumed)
fn ref_varint(b: &[u8]) -> Option<(u64, usize)> {
    if b.is_empty() {
        return None;
    }
    let n = 1usize << (b[0] >> 6);
    if b.len() < n {
        return None;
    }
    let mut v = (b[0] & 0x3f) as u64;
    let mut i = 1;
    while i < n {
        v = (v << 8) | b[i] as u64;
        i += 1;
    }
    Some((v, n))
}

const N: usize = 12;

/// the fields of the frame in RFC order, and the number of body bytes they occupy
struct RefFrame {
    /// Maximum Streams (i)
    stream_limit: u64,
    consumed: usize,
}

/// reference parser of the frame body (everything after the type byte)
fn ref_parse(b: &[u8]) -> Option<RefFrame> {
    let mut at = 0usize;
    let (stream_limit, n) = ref_varint(&b[at..])?;
    at += n;
    // 19.14: "This value cannot exceed 2^60 ... MUST be treated as a connection error of type STREAM_LIMIT_ERROR or FRAME_ENCODING_ERROR"
    if stream_limit > (1u64 << 60) {
        return None;
    }
    Some(RefFrame {
        stream_limit,
        consumed: at,
    })
}

/// RFC 9000 section 19.14: type 0x16 applies to bidirectional, 0x17 to unidirectional streams
fn ref_stream_type(tag: u8) -> StreamType {
    if tag == 0x16 {
        StreamType::Bidirectional
    } else {
        StreamType::Unidirectional
    }
}

#[cfg_attr(kani, kani::proof)]
#[cfg_attr(kani, kani::unwind(9))]
fn verif_frame_streams_blocked_decode_diff() {
    let bytes: [u8; N] = kani::any();
    let len: usize = kani::any();
    kani::assume(len <= N);
    let tag: u8 = kani::any();
    kani::assume(tag >= 0x16 && tag <= 0x17);
    let res = DecoderBuffer::new(&bytes[..len]).decode_parameterized::<StreamsBlocked>(tag);
    match (res, ref_parse(&bytes[..len])) {
        (Ok((frame, rest)), Some(r)) => {
            kani::cover!(r.consumed == 2, "all fields in the 2-byte varint form");
            kani::cover!(r.consumed < len, "trailing bytes left for the next frame");
            kani::cover!(r.stream_limit == (1u64 << 60), "limit value 2^60 accepted");
            assert!(frame.stream_limit.as_u64() == r.stream_limit);
            assert!(frame.stream_type == ref_stream_type(tag));
            assert!(rest.len() == len - r.consumed);
            assert!(frame.tag() == tag);
        }
        (Err(_), None) => {
            kani::cover!(len == 3, "rejected: truncated");
            kani::cover!(len == N, "rejected: value above 2^60");
        }
        (Ok(_), None) => panic!("decoder accepted a frame the RFC reference rejects"),
        (Err(_), Some(_)) => panic!("decoder rejected a well-formed frame"),
    }
}

#[cfg_attr(kani, kani::proof)]
#[cfg_attr(kani, kani::unwind(9))]
fn verif_frame_streams_blocked_roundtrip() {
    let stream_limit: u64 = kani::any();
    kani::assume(stream_limit < (1 << 62));
    // the encoder's contract: only frames that are valid on the wire are built
    kani::assume(stream_limit <= (1u64 << 60));
    let stream_type = if kani::any() {
        StreamType::Bidirectional
    } else {
        StreamType::Unidirectional
    };
    let frame = StreamsBlocked {
        stream_type,
        stream_limit: VarInt::new(stream_limit).unwrap(),
    };
    const CAP: usize = 9;
    let mut storage = [0u8; CAP];
    let size = frame.encoding_size();
    // symbolic capacity: exact fit as well as spare room (the varint encoder has two paths)
    let cap: usize = kani::any();
    kani::assume(cap >= size && cap <= CAP);
    let written = {
        let mut enc = EncoderBuffer::new(&mut storage[..cap]);
        enc.encode(&frame);
        enc.len()
    };
    assert!(size == written);
    kani::cover!(written == CAP, "every field in the 8-byte form");
    kani::cover!(written == 2 && cap == written, "1-byte fields, exact fit");
    // RFC layout: type byte (selected by the stream type), then the body
    assert!(storage[0] == if stream_type == StreamType::Bidirectional { 0x16 } else { 0x17 });
    // the bytes written are what the RFC reference reads back
    match ref_parse(&storage[1..written]) {
        Some(r) => {
            assert!(r.stream_limit == stream_limit);
            assert!(r.consumed == written - 1);
        }
        None => panic!("encoder output is not a well-formed frame"),
    }
    let (back, rest) = DecoderBuffer::new(&storage[1..written])
        .decode_parameterized::<StreamsBlocked>(storage[0])
        .unwrap();
    assert!(rest.is_empty());
    assert!(back.stream_limit.as_u64() == stream_limit);
    assert!(back.stream_type == stream_type);
}

// ---- generated by tools/fixup.py: native replay entry ----
#[cfg(not(kani))]
#[test]
fn verif_replay() {
    kani::replay(&[
        ("verif_frame_streams_blocked_decode_diff", verif_frame_streams_blocked_decode_diff),
        ("verif_frame_streams_blocked_roundtrip", verif_frame_streams_blocked_roundtrip),
    ]);
}
