// C05-O3 (CRYPTO): the real per-type decoder / encoder vs an independently written
// RFC 9000 section 19.6 reference.
//   CRYPTO Frame { Type (i) = 0x06, Offset (i), Length (i), Crypto Data (..) }
//   "The largest offset delivered on a stream -- the sum of the offset and data length -- cannot
//    exceed 2^62-1.  Receipt of a frame that exceeds this limit MUST be treated as a connection
//    error of type FRAME_ENCODING_ERROR or CRYPTO_BUFFER_EXCEEDED."
// The RFC leaves open which layer raises that error: the codec may accept such a frame as long as
// it reports the fields faithfully (s2n-quic-transport space/crypto_stream.rs then fails with
// CRYPTO_BUFFER_EXCEEDED on `offset.checked_add_usize(len)`).  So for those frames accept/reject
// is not asserted here, only the field values.
use super::*;
#[cfg(not(kani))]
use crate::kani;
use s2n_codec::{DecoderBuffer, Encoder, EncoderBuffer, EncoderValue};

/// RFC 9000 section 16 variable-length integer: (value, bytes consumed)
fn ref_varint(b: &[u8]) -> Option<(u64, usize)> {
    if b.is_empty() {
        return None;
    }
    let n = 1usize << (b[0] >> 6);
    if b.len() < n {
        return None;
    }
    let mut v = (b[0] & 0x3f) as u64;
    let mut i = 1;
    while i < n {
        v = (v << 8) | b[i] as u64;
        i += 1;
    }
    Some((v, n))
}

const N: usize = 12;
const MAX_VARINT: u64 = (1 << 62) - 1;

struct RefFrame {
    offset: u64,
    /// offset and length of the Crypto Data field in the body
    data_at: usize,
    data_len: usize,
    consumed: usize,
    /// offset + length > 2^62-1
    exceeds_limit: bool,
}

/// reference parser of the frame body (everything after the type byte)
fn ref_parse(b: &[u8]) -> Option<RefFrame> {
    let mut at = 0usize;
    let (offset, n) = ref_varint(&b[at..])?;
    at += n;
    let (length, n) = ref_varint(&b[at..])?;
    at += n;
    if length > (b.len() - at) as u64 {
        return None;
    }
    let data_len = length as usize;
    let data_at = at;
    at += data_len;
    Some(RefFrame {
        offset,
        data_at,
        data_len,
        consumed: at,
        exceeds_limit: offset + length > MAX_VARINT,
    })
}

#[cfg_attr(kani, kani::proof)]
#[cfg_attr(kani, kani::unwind(9))]
fn verif_frame_crypto_decode_diff() {
    let bytes: [u8; N] = kani::any();
    let len: usize = kani::any();
    kani::assume(len <= N);
    let tag: u8 = 0x06;
    let res = DecoderBuffer::new(&bytes[..len]).decode_parameterized::<Crypto<DecoderBuffer>>(tag);
    match (res, ref_parse(&bytes[..len])) {
        (Ok((frame, rest)), Some(r)) => {
            kani::cover!(r.data_at == 4 && r.data_len == 3, "2-byte offset and length, 3 data bytes");
            kani::cover!(r.data_len == 0, "empty crypto data");
            kani::cover!(r.consumed < len, "trailing bytes left for the next frame");
            kani::cover!(r.exceeds_limit, "offset + length > 2^62-1 accepted by the codec (left to crypto_stream)");
            assert!(frame.offset.as_u64() == r.offset);
            let data = frame.data.into_less_safe_slice();
            assert!(data.len() == r.data_len);
            let k: usize = kani::any();
            kani::assume(k < r.data_len);
            assert!(data[k] == bytes[r.data_at + k]);
            assert!(rest.len() == len - r.consumed);
        }
        (Err(_), None) => {
            kani::cover!(len == 3 && bytes[0] < 64 && bytes[1] == 2, "rejected: truncated data");
            kani::cover!(len == N && bytes[0] < 64 && bytes[1] >= 0xc0, "rejected: 8-byte length larger than the packet");
        }
        (Ok(_), None) => panic!("decoder accepted a frame the RFC reference rejects"),
        (Err(_), Some(r)) => {
            // only a frame above the 2^62-1 limit may be rejected
            assert!(r.exceeds_limit, "decoder rejected a well-formed frame");
        }
    }
}

#[cfg_attr(kani, kani::proof)]
#[cfg_attr(kani, kani::unwind(9))]
fn verif_frame_crypto_roundtrip() {
    let offset: u64 = kani::any();
    kani::assume(offset <= MAX_VARINT);
    let payload: [u8; 4] = kani::any();
    let data_len: usize = kani::any();
    kani::assume(data_len <= 4);
    let frame: CryptoRef = Crypto {
        offset: VarInt::new(offset).unwrap(),
        data: &payload[..data_len],
    };
    const CAP: usize = 1 + 8 + 1 + 4;
    let mut storage = [0u8; CAP];
    let size = frame.encoding_size();
    let cap: usize = kani::any();
    kani::assume(cap >= size && cap <= CAP);
    let written = {
        let mut enc = EncoderBuffer::new(&mut storage[..cap]);
        enc.encode(&frame);
        enc.len()
    };
    assert!(size == written);
    kani::cover!(written == CAP, "8-byte offset, 4 data bytes");
    kani::cover!(written == 3 && cap == 3, "smallest frame (no data), exact fit");
    assert!(storage[0] == 0x06);
    // the bytes written are what the RFC reference reads back
    match ref_parse(&storage[1..written]) {
        Some(r) => {
            assert!(r.offset == offset);
            assert!(r.data_len == data_len);
            assert!(r.consumed == written - 1);
            let k: usize = kani::any();
            kani::assume(k < data_len);
            assert!(storage[1 + r.data_at + k] == payload[k]);
        }
        None => panic!("encoder output is not a well-formed frame"),
    }
    let (back, rest) = DecoderBuffer::new(&storage[1..written])
        .decode_parameterized::<Crypto<DecoderBuffer>>(storage[0])
        .unwrap();
    assert!(rest.is_empty());
    assert!(back.offset.as_u64() == offset);
    let data = back.data.into_less_safe_slice();
    assert!(data.len() == data_len);
    let k: usize = kani::any();
    kani::assume(k < data_len);
    assert!(data[k] == payload[k]);
}

// announced size for LARGE payloads (the round trip above is limited to 4 data bytes): any offset,
// any data length up to 20 000 bytes (across the varint boundaries of the Length field):
// encoding_size() == type + offset + length + data (RFC 9000 19.6). Size computation only.

fn varint_len_large(v: u64) -> usize {
    if v < 1 << 6 {
        1
    } else if v < 1 << 14 {
        2
    } else if v < 1 << 30 {
        4
    } else {
        8
    }
}

static ZEROS_LARGE: [u8; 20_000] = [0u8; 20_000];

#[cfg_attr(kani, kani::proof)]
#[cfg_attr(kani, kani::unwind(9))]
fn verif_frame_crypto_announced_size() {
    let offset: u64 = kani::any();
    kani::assume(offset <= MAX_VARINT);
    let data_len: usize = kani::any();
    kani::assume(data_len <= 20_000);
    let frame: CryptoRef = Crypto { offset: VarInt::new(offset).unwrap(), data: &ZEROS_LARGE[..data_len] };
    let size = frame.encoding_size();
    assert!(size == 1 + varint_len_large(offset) + varint_len_large(data_len as u64) + data_len);
    kani::cover!(data_len == 63, "largest payload with a 1-byte length");
    kani::cover!(data_len == 16384, "smallest payload with a 4-byte length");
}

// ---- generated by tools/fixup.py: native replay entry ----
#[cfg(not(kani))]
#[test]
fn verif_replay() {
    kani::replay(&[
        ("verif_frame_crypto_decode_diff", verif_frame_crypto_decode_diff),
        ("verif_frame_crypto_roundtrip", verif_frame_crypto_roundtrip),
        ("verif_frame_crypto_announced_size", verif_frame_crypto_announced_size),
    ]);
}
