// C05-O3 (DATAGRAM): the real per-type decoder / encoder vs an independently written
// RFC 9221 section 4 reference.
//   DATAGRAM Frame { Type (i) = 0x30..0x31, [Length (i)], Datagram Data (..) }
//   "The least significant bit of the DATAGRAM frame type is the LEN bit (0x01), which indicates
//    whether there is a Length field present: if this bit is set to 0, the Length field is absent
//    and the Datagram Data field extends to the end of the packet"
use super::*;
#[cfg(not(kani))]
use crate::kani;
use s2n_codec::{DecoderBuffer, Encoder, EncoderBuffer, EncoderValue};

/// RFC 9000 section 16 variable-length integer: (value, bytes consumed)
fn ref_varint(b: &[u8]) -> Option<(u64, usize)> {
    if b.is_empty() {
        return None;
    }
    let n = 1usize << (b[0] >> 6);
    if b.len() < n {
        return None;
    }
    let mut v = (b[0] & 0x3f) as u64;
    let mut i = 1;
    while i < n {
        v = (v << 8) | b[i] as u64;
        i += 1;
    }
    Some((v, n))
}

const N: usize = 12;

struct RefFrame {
    has_len: bool,
    /// offset and length of the Datagram Data field in the body
    data_at: usize,
    data_len: usize,
    consumed: usize,
}

/// reference parser of the frame body (everything after the type byte)
fn ref_parse(tag: u8, b: &[u8]) -> Option<RefFrame> {
    let has_len = tag & 0x01 != 0;
    if has_len {
        let (length, n) = ref_varint(b)?;
        if length > (b.len() - n) as u64 {
            return None;
        }
        let data_len = length as usize;
        Some(RefFrame {
            has_len,
            data_at: n,
            data_len,
            consumed: n + data_len,
        })
    } else {
        Some(RefFrame {
            has_len,
            data_at: 0,
            data_len: b.len(),
            consumed: b.len(),
        })
    }
}

#[cfg_attr(kani, kani::proof)]
#[cfg_attr(kani, kani::unwind(9))]
fn verif_frame_datagram_decode_diff() {
    let bytes: [u8; N] = kani::any();
    let len: usize = kani::any();
    kani::assume(len <= N);
    let tag: u8 = kani::any();
    kani::assume(tag >= 0x30 && tag <= 0x31);
    let res = DecoderBuffer::new(&bytes[..len]).decode_parameterized::<Datagram<DecoderBuffer>>(tag);
    match (res, ref_parse(tag, &bytes[..len])) {
        (Ok((frame, rest)), Some(r)) => {
            kani::cover!(r.has_len && r.data_at == 2 && r.data_len == 3, "2-byte length field");
            kani::cover!(r.has_len && r.data_len == 0, "explicit zero-length datagram");
            kani::cover!(!r.has_len && len == N, "implicit length: data to the end of the packet");
            kani::cover!(!r.has_len && len == 0, "implicit length, empty");
            kani::cover!(r.consumed < len, "trailing bytes left for the next frame");
            // LEN bit clear <=> last frame of the packet
            assert!(frame.is_last_frame == !r.has_len);
            let data = frame.data.into_less_safe_slice();
            assert!(data.len() == r.data_len);
            let k: usize = kani::any();
            kani::assume(k < r.data_len);
            assert!(data[k] == bytes[r.data_at + k]);
            assert!(rest.len() == len - r.consumed);
        }
        (Err(_), None) => {
            kani::cover!(len == 3 && bytes[0] == 3, "rejected: truncated data");
        }
        (Ok(_), None) => panic!("decoder accepted a frame the RFC reference rejects"),
        (Err(_), Some(_)) => panic!("decoder rejected a well-formed frame"),
    }
}

#[cfg_attr(kani, kani::proof)]
#[cfg_attr(kani, kani::unwind(9))]
fn verif_frame_datagram_roundtrip() {
    let payload: [u8; 4] = kani::any();
    let data_len: usize = kani::any();
    kani::assume(data_len <= 4);
    let is_last_frame: bool = kani::any();
    let frame: DatagramRef = Datagram {
        is_last_frame,
        data: &payload[..data_len],
    };
    const CAP: usize = 1 + 1 + 4 + 2;
    let mut storage = [0u8; CAP];
    let size = frame.encoding_size();
    let cap: usize = kani::any();
    kani::assume(cap >= size && cap <= CAP);
    let written = {
        let mut enc = EncoderBuffer::new(&mut storage[..cap]);
        enc.encode(&frame);
        enc.len()
    };
    assert!(size == written);
    kani::cover!(is_last_frame && written == 5, "implicit length, 4 data bytes");
    kani::cover!(!is_last_frame && written == 6 && cap == 6, "explicit length, exact fit");
    kani::cover!(written == 1, "empty datagram without length");
    // RFC layout: 0x30 | LEN bit
    assert!(storage[0] == if is_last_frame { 0x30 } else { 0x31 });
    assert!(frame.tag() == storage[0]);
    match ref_parse(storage[0], &storage[1..written]) {
        Some(r) => {
            assert!(r.data_len == data_len);
            assert!(r.consumed == written - 1);
            let k: usize = kani::any();
            kani::assume(k < data_len);
            assert!(storage[1 + r.data_at + k] == payload[k]);
        }
        None => panic!("encoder output is not a well-formed frame"),
    }
    let (back, rest) = DecoderBuffer::new(&storage[1..written])
        .decode_parameterized::<Datagram<DecoderBuffer>>(storage[0])
        .unwrap();
    assert!(rest.is_empty());
    assert!(back.is_last_frame == is_last_frame);
    let data = back.data.into_less_safe_slice();
    assert!(data.len() == data_len);
    let k: usize = kani::any();
    kani::assume(k < data_len);
    assert!(data[k] == payload[k]);
}

// announced size for LARGE payloads: any data length up to 20 000 bytes, with or without the
// Length field: encoding_size() == type + [length] + data (RFC 9221 4). Size computation only.

fn varint_len_large(v: u64) -> usize {
    if v < 1 << 6 {
        1
    } else if v < 1 << 14 {
        2
    } else if v < 1 << 30 {
        4
    } else {
        8
    }
}

static ZEROS_LARGE: [u8; 20_000] = [0u8; 20_000];

#[cfg_attr(kani, kani::proof)]
#[cfg_attr(kani, kani::unwind(9))]
fn verif_frame_datagram_announced_size() {
    let is_last_frame: bool = kani::any();
    let data_len: usize = kani::any();
    kani::assume(data_len <= 20_000);
    let frame: DatagramRef = Datagram { is_last_frame, data: &ZEROS_LARGE[..data_len] };
    let size = frame.encoding_size();
    assert!(size == 1 + if !is_last_frame { varint_len_large(data_len as u64) } else { 0 } + data_len);
    kani::cover!(!is_last_frame && data_len == 63, "largest payload with a 1-byte length");
    kani::cover!(!is_last_frame && data_len == 16384, "smallest payload with a 4-byte length");
}

// ---- generated by tools/fixup.py: native replay entry ----
#[cfg(not(kani))]
#[test]
fn verif_replay() {
    kani::replay(&[
        ("verif_frame_datagram_decode_diff", verif_frame_datagram_decode_diff),
        ("verif_frame_datagram_roundtrip", verif_frame_datagram_roundtrip),
        ("verif_frame_datagram_announced_size", verif_frame_datagram_announced_size),
    ]);
}
