// C09-O4 / C16-O7: packet::number::Map (the sent-packet store) one step from an arbitrary state
// against an 8-slot array model: every inserted number is returned exactly once and never after.
use super::*;
#[cfg(not(kani))]
use crate::kani;
use crate::varint::VarInt;

const CAP: usize = 8;

fn pn(v: u64) -> PacketNumber {
    PacketNumberSpace::ApplicationData.new_packet_number(VarInt::new(v).unwrap())
}

struct Model {
    /// occ[r] = value stored for packet number start + r
    occ: [Option<u8>; CAP],
    start: u64,
    empty: bool,
}

impl Model {
    fn get(&self, q: u64) -> Option<u8> {
        if self.empty || q < self.start || q - self.start >= CAP as u64 {
            return None;
        }
        self.occ[(q - self.start) as usize]
    }
}

/// arbitrary map of capacity 8 under its representation invariant: the ring slot `index` holds the
/// entry for `start`, the entry for `end` is occupied, nothing is stored outside [start, end];
/// or the map is (logically) empty and every slot is None
fn any_map() -> (Map<u8>, Model) {
    let mut values: Vec<Option<u8>> = Vec::with_capacity(CAP);
    let mut i = 0;
    while i < CAP {
        values.push(None);
        i += 1;
    }
    let mut values = values.into_boxed_slice();
    let empty: bool = kani::any();
    let start: u64 = kani::any();
    kani::assume(start <= (1 << 62) - 64);
    let index: usize = kani::any();
    kani::assume(index < CAP);
    let d: usize = kani::any();
    kani::assume(d < CAP);
    let present: [bool; CAP] = kani::any();
    let vals: [u8; CAP] = kani::any();
    let mut occ = [None; CAP];
    if !empty {
        kani::assume(present[0] && present[d]);
        let mut r = 0;
        while r < CAP {
            if r <= d && present[r] {
                occ[r] = Some(vals[r]);
                values[(index + r) % CAP] = Some(vals[r]);
            }
            r += 1;
        }
    }
    let map = Map {
        values,
        start: pn(start),
        end: pn(start + if empty { 0 } else { d as u64 }),
        index: if empty { CAP } else { index },
    };
    (map, Model { occ, start, empty })
}

// remove(pn): returns the stored value exactly when present; afterwards the map holds exactly the
// other entries (observed through get() of an arbitrary number) and start/end track the extremes.
#[cfg_attr(kani, kani::proof)]
#[cfg_attr(kani, kani::unwind(10))]
fn verif_pn_map_remove_step() {
    let (mut map, model) = any_map();
    let p: u64 = kani::any();
    kani::assume(p < (1 << 62));
    let expect = model.get(p);
    let got = map.remove(pn(p));
    assert!(got == expect);
    let q: u64 = kani::any();
    kani::assume(q < (1 << 62));
    let after = map.get(pn(q)).copied();
    if q == p {
        // resolved exactly once: never returned again
        assert!(after.is_none());
        assert!(map.remove(pn(p)).is_none());
    } else {
        assert!(after == model.get(q));
    }
    // range bookkeeping
    if !map.is_empty() {
        let r = map.get_range();
        assert!(map.get(r.start()).is_some() && map.get(r.end()).is_some());
        assert!(r.start().as_u64() >= model.start);
    }
    kani::cover!(expect.is_some() && map.is_empty(), "last entry removed");
    kani::cover!(expect.is_some() && p == model.start && !map.is_empty(), "start advanced to the next occupied entry");
    kani::cover!(expect.is_some() && p > model.start && !map.is_empty(), "removed from the middle or end");
    kani::cover!(expect.is_none() && !model.empty, "absent number");
    core::mem::forget(map);
}

/// like any_map, with a CONCRETE start (the insert path branches on `pn - start >= capacity` into
/// Map::resize, whose loops CBMC cannot bound unless that distance is a constant)
fn any_map_at(start: u64) -> (Map<u8>, Model, usize) {
    let mut values: Vec<Option<u8>> = Vec::with_capacity(CAP);
    let mut i = 0;
    while i < CAP {
        values.push(None);
        i += 1;
    }
    let mut values = values.into_boxed_slice();
    let index: usize = kani::any();
    kani::assume(index < CAP);
    let d: usize = kani::any();
    kani::assume(d < CAP);
    let present: [bool; CAP] = kani::any();
    let vals: [u8; CAP] = kani::any();
    let mut occ = [None; CAP];
    kani::assume(present[0] && present[d]);
    let mut r = 0;
    while r < CAP {
        if r <= d && present[r] {
            occ[r] = Some(vals[r]);
            values[(index + r) % CAP] = Some(vals[r]);
        }
        r += 1;
    }
    let map = Map {
        values,
        start: pn(start),
        end: pn(start + d as u64),
        index,
    };
    (map, Model { occ, start, empty: false }, d)
}

fn insert_case(start: u64, off: u64) {
    let (mut map, model, d) = any_map_at(start);
    // documented precondition: monotonic inserts
    kani::assume((d as u64) < off);
    let p = start + off;
    let v: u8 = kani::any();
    map.insert(pn(p), v);
    let q: u64 = kani::any();
    kani::assume(q < (1 << 62));
    let after = map.get(pn(q)).copied();
    if q == p {
        assert!(after == Some(v));
    } else {
        assert!(after == model.get(q));
    }
    assert!(map.get_range().end().as_u64() == p);
    assert!(map.get_range().start().as_u64() == start);
    assert!(!map.is_empty());
    core::mem::forget(map);
}

// insert(pn) of a larger number that fits the ring: afterwards exactly the old entries plus the
// new one.  Distances 1..7 and three start values are enumerated concretely; occupancy, ring
// index, stored values and the queried number are symbolic.
#[cfg_attr(kani, kani::proof)]
#[cfg_attr(kani, kani::unwind(10))]
fn verif_pn_map_insert_step() {
    let mut off = 1;
    while off < CAP as u64 {
        insert_case(0, off);
        insert_case(1000, off);
        insert_case((1 << 62) - 64, off);
        off += 1;
    }
    // insert into an empty map (built concretely empty: a symbolic emptiness flag would make CBMC
    // explore the ring-growth path with a symbolic distance)
    {
        let mut map: Map<u8> = Map::default();
        let p: u64 = kani::any();
        kani::assume(p < (1 << 62));
        let v: u8 = kani::any();
        map.insert(pn(p), v);
        let q: u64 = kani::any();
        kani::assume(q < (1 << 62));
        assert!(map.get(pn(q)).copied() == if q == p { Some(v) } else { None });
        assert!(map.get_range().start().as_u64() == p && map.get_range().end().as_u64() == p);
        kani::cover!(true, "insert into empty map");
        core::mem::forget(map);
    }
    kani::cover!(true, "all shapes done");
}

// insert that forces the ring to grow (8 -> 16): old entries survive, re-based at index 0
#[cfg_attr(kani, kani::proof)]
#[cfg_attr(kani, kani::unwind(18))]
fn verif_pn_map_insert_grow() {
    let mut off = CAP as u64;
    while off < 2 * CAP as u64 {
        insert_case(1000, off);
        off += 1;
    }
    kani::cover!(true, "ring grown");
}

// ---- generated by tools/fixup.py: native replay entry ----
#[cfg(not(kani))]
#[test]
fn verif_replay() {
    kani::replay(&[
        ("verif_pn_map_remove_step", verif_pn_map_remove_step),
        ("verif_pn_map_insert_step", verif_pn_map_insert_step),
        ("verif_pn_map_insert_grow", verif_pn_map_insert_grow),
    ]);
}
