// C16-O5: interval-set insertion = planner (`Insertion::scan`, heap free, fully symbolic)
//         + container splice (`Insertion::apply`, concrete shapes, symbolic values).
use super::*;
#[cfg(not(kani))]
use crate::kani;
use crate::interval_set::Interval;

const N: usize = 3;

/// arbitrary set of <= 3 intervals over u8 satisfying the IntervalSet representation invariant:
/// valid, sorted, disjoint and non-adjacent
fn any_state() -> ([Interval<u8>; N], usize) {
    let n: usize = kani::any();
    kani::assume(n <= N);
    let s: [u8; N] = kani::any();
    let e: [u8; N] = kani::any();
    let arr = [
        Interval { start: s[0], end: e[0] },
        Interval { start: s[1], end: e[1] },
        Interval { start: s[2], end: e[2] },
    ];
    kani::assume(s[0] <= e[0] && s[1] <= e[1] && s[2] <= e[2]);
    if n >= 2 {
        kani::assume((e[0] as u16) + 1 < s[1] as u16);
    }
    if n >= 3 {
        kani::assume((e[1] as u16) + 1 < s[2] as u16);
    }
    (arr, n)
}

fn model_contains(arr: &[Interval<u8>; N], n: usize, x: u8) -> bool {
    (n >= 1 && arr[0].start <= x && x <= arr[0].end)
        || (n >= 2 && arr[1].start <= x && x <= arr[1].end)
        || (n >= 3 && arr[2].start <= x && x <= arr[2].end)
}

// The plan computed by scan(), applied to the array model, is exactly the set union and keeps the
// representation invariant.
#[cfg_attr(kani, kani::proof)]
#[cfg_attr(kani, kani::unwind(5))]
fn verif_iset_scan_plan() {
    let (arr, n) = any_state();
    let a: u8 = kani::any();
    let b: u8 = kani::any();
    kani::assume(a <= b);
    let mut range = Interval { start: a, end: b };
    #[allow(clippy::reversed_empty_ranges)]
    let mut ins = Insertion {
        replace_range: usize::MAX..0,
    };
    let r = ins.scan(arr[..n].iter().enumerate().skip(0), &mut range);
    let x: u8 = kani::any();
    let expect = model_contains(&arr, n, x) || (a <= x && x <= b);
    if let Some(idx) = r {
        // "already present": the set is left unchanged, so the new interval must be covered
        assert!(model_contains(&arr, n, x) == expect);
        assert!(idx <= n);
        kani::cover!(true, "interval already covered");
    } else {
        let rr = ins.replace_range.clone();
        // merged interval is valid and covers the inserted one
        assert!(range.start <= a && b <= range.end);
        let mut got = range.start <= x && x <= range.end;
        if rr.start <= rr.end {
            assert!(rr.end <= n);
            // kept = indices outside rr
            let mut i = 0;
            while i < N {
                if i < n && !(rr.start <= i && i < rr.end) {
                    if arr[i].start <= x && x <= arr[i].end {
                        got = true;
                    }
                }
                i += 1;
            }
            // neighbours stay separated by a gap: sorted, disjoint, non-adjacent
            if rr.start > 0 {
                let prev = arr[rr.start - 1];
                assert!((prev.end as u16) + 1 < range.start as u16);
            }
            if rr.end < n {
                let next = arr[rr.end];
                assert!((range.end as u16) + 1 < next.start as u16);
            }
            kani::cover!(rr.end - rr.start == 2, "two intervals merged into one");
            kani::cover!(rr.end == rr.start && rr.start < n, "inserted in front of an interval");
            kani::cover!(rr.end - rr.start == 3, "three intervals swallowed");
        } else {
            // nothing matched: appended at the back
            got = got || model_contains(&arr, n, x);
            if n > 0 {
                let prev = arr[n - 1];
                assert!((prev.end as u16) + 1 < range.start as u16);
            }
            kani::cover!(n == 3, "appended behind three intervals");
        }
        assert!(got == expect);
    }
}

// apply(): every concrete shape (len n <= 3, index, replace count, and the push-back plan) with
// symbolic interval values and symbolic limit; the VecDeque afterwards is the model splice.
#[cfg_attr(kani, kani::proof)]
#[cfg_attr(kani, kani::unwind(6))]
fn verif_iset_apply_shapes() {
    let vals: [u8; 8] = kani::any();
    let newv: (u8, u8) = kani::any();
    let lim: usize = kani::any();
    kani::assume(lim <= 4);
    let limit = NonZeroUsize::new(lim);
    let mut n = 0;
    while n <= 3 {
        let mut index = 0;
        while index <= n {
            let mut count = 0;
            while index + count <= n {
                let mut dq: VecDeque<Interval<u8>> = VecDeque::with_capacity(8);
                let mut i = 0;
                while i < n {
                    dq.push_back(Interval {
                        start: vals[2 * i],
                        end: vals[2 * i + 1],
                    });
                    i += 1;
                }
                let ins = Insertion {
                    replace_range: index..(index + count),
                };
                let r = ins.apply(
                    &mut dq,
                    Interval {
                        start: newv.0,
                        end: newv.1,
                    },
                    limit,
                );
                let net_insert = count == 0;
                let over = net_insert && lim != 0 && n >= lim;
                if over {
                    assert!(r == Err(IntervalSetError::LimitExceeded));
                    assert!(dq.len() == n);
                    kani::cover!(n == 2, "limit exceeded at len 2");
                } else {
                    assert!(r == Ok(index));
                    let exp_len = if count == 0 { n + 1 } else { n - count + 1 };
                    assert!(dq.len() == exp_len);
                    assert!(dq[index].start == newv.0 && dq[index].end == newv.1);
                    // prefix and suffix preserved
                    let mut j = 0;
                    while j < index {
                        assert!(dq[j].start == vals[2 * j] && dq[j].end == vals[2 * j + 1]);
                        j += 1;
                    }
                    let mut j = index + 1;
                    while j < exp_len {
                        let src = j - 1 + count;
                        assert!(dq[j].start == vals[2 * src] && dq[j].end == vals[2 * src + 1]);
                        j += 1;
                    }
                }
                core::mem::forget(dq);
                count += 1;
            }
            index += 1;
        }
        // the "no slot matched" plan: push to the back
        {
            let mut dq: VecDeque<Interval<u8>> = VecDeque::with_capacity(8);
            let mut i = 0;
            while i < n {
                dq.push_back(Interval {
                    start: vals[2 * i],
                    end: vals[2 * i + 1],
                });
                i += 1;
            }
            #[allow(clippy::reversed_empty_ranges)]
            let ins = Insertion {
                replace_range: usize::MAX..0,
            };
            let r = ins.apply(
                &mut dq,
                Interval {
                    start: newv.0,
                    end: newv.1,
                },
                limit,
            );
            if lim != 0 && n >= lim {
                assert!(r == Err(IntervalSetError::LimitExceeded));
                assert!(dq.len() == n);
            } else {
                assert!(r == Ok(n));
                assert!(dq.len() == n + 1);
                assert!(dq[n].start == newv.0 && dq[n].end == newv.1);
                if n > 0 {
                    assert!(dq[0].start == vals[0] && dq[n - 1].end == vals[2 * n - 1]);
                }
            }
            core::mem::forget(dq);
        }
        n += 1;
    }
    kani::cover!(lim == 0, "no limit");
    kani::cover!(lim == 3, "limit 3");
}

// ---- generated by tools/fixup.py: native replay entry ----
#[cfg(not(kani))]
#[test]
fn verif_replay() {
    kani::replay(&[
        ("verif_iset_scan_plan", verif_iset_scan_plan),
        ("verif_iset_apply_shapes", verif_iset_apply_shapes),
    ]);
}
