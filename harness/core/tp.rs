// C14-O1: per transport parameter — the real codec (length-prefixed value) + validate() against a
// table transcribed from RFC 9000 section 18.2 (and RFC 9221 for max_datagram_frame_size).
use super::*;
#[cfg(not(kani))]
use crate::kani;
use s2n_codec::DecoderBuffer;

/// what the RFC says about a value
#[derive(Clone, Copy, PartialEq)]
enum Rfc {
    MustAccept,
    MustReject,
    /// the RFC does not say (implementation choice, not checked)
    Unspecified,
}

// ---- the table (RFC 9000 18.2) -------------------------------------------------------------
fn rfc_max_idle_timeout(_v: u64) -> Rfc {
    Rfc::MustAccept
}
fn rfc_max_udp_payload_size(v: u64) -> Rfc {
    // "Values below 1200 are invalid."  65527 is "the maximum permitted UDP payload"; larger
    // values are not declared invalid
    if v < 1200 {
        Rfc::MustReject
    } else if v <= 65527 {
        Rfc::MustAccept
    } else {
        Rfc::Unspecified
    }
}
fn rfc_any(_v: u64) -> Rfc {
    Rfc::MustAccept
}
fn rfc_max_streams(v: u64) -> Rfc {
    // 4.6: a value greater than 2^60 MUST be rejected
    if v > (1 << 60) {
        Rfc::MustReject
    } else {
        Rfc::MustAccept
    }
}
fn rfc_ack_delay_exponent(v: u64) -> Rfc {
    // "Values above 20 are invalid."
    if v > 20 {
        Rfc::MustReject
    } else {
        Rfc::MustAccept
    }
}
fn rfc_max_ack_delay(v: u64) -> Rfc {
    // "Values of 2^14 or greater are invalid."
    if v >= (1 << 14) {
        Rfc::MustReject
    } else {
        Rfc::MustAccept
    }
}
fn rfc_active_connection_id_limit(v: u64) -> Rfc {
    // "MUST be at least 2"
    if v < 2 {
        Rfc::MustReject
    } else {
        Rfc::MustAccept
    }
}

// ---- reference varint (RFC 9000 section 16), written independently of crate::varint -----------
/// returns (value, bytes consumed)
fn ref_varint(b: &[u8]) -> Option<(u64, usize)> {
    if b.is_empty() {
        return None;
    }
    let n = 1usize << (b[0] >> 6);
    if b.len() < n {
        return None;
    }
    let mut v = (b[0] & 0x3f) as u64;
    let mut i = 1;
    while i < n {
        v = (v << 8) | b[i] as u64;
        i += 1;
    }
    Some((v, n))
}

const N: usize = 10;

/// decodes `TransportParameterCodec<T>` from an arbitrary byte string of length <= 10 and compares
/// with the reference: well-formed (length prefix + one varint filling it exactly) <=> codec Ok;
/// value equal; bytes consumed equal; validate() agrees with the RFC table.
fn varint_param_case<T>(table: fn(u64) -> Rfc, get: fn(&T) -> u64)
where
    T: TransportParameter + TransportParameterValidator,
    T::CodecValue: for<'a> s2n_codec::DecoderValue<'a>,
{
    let bytes: [u8; N] = kani::any();
    let len: usize = kani::any();
    kani::assume(len <= N);
    let buf = DecoderBuffer::new(&bytes[..len]);
    let res = buf.decode::<TransportParameterCodec<T>>();

    // reference
    let mut well_formed = None;
    if let Some((l, n1)) = ref_varint(&bytes[..len]) {
        let l = l as usize;
        if l <= N && n1 + l <= len {
            if let Some((v, n2)) = ref_varint(&bytes[n1..n1 + l]) {
                if n2 == l {
                    well_formed = Some((v, n1 + l));
                }
            }
        }
    }
    match (res, well_formed) {
        (Ok((p, rest)), Some((v, consumed))) => {
            assert!(rest.len() == len - consumed);
            assert!(get(&p.0) == v);
            let verdict = table(v);
            let accepted = p.0.validate().is_ok();
            if verdict == Rfc::MustAccept {
                assert!(accepted);
            }
            if verdict == Rfc::MustReject {
                assert!(!accepted);
            }
            kani::cover!(verdict == Rfc::MustAccept, "permitted value");
            kani::cover!(consumed < len, "trailing bytes left for the next parameter");
        }
        (Err(_), None) => {
            kani::cover!(len >= 2, "malformed parameter rejected");
        }
        (Ok(_), None) => panic!("codec accepted a malformed parameter body"),
        (Err(_), Some(_)) => panic!("codec rejected a well-formed parameter body"),
    }
}

macro_rules! varint_param {
    ($name:ident, $ty:ty, $table:expr) => {
        #[cfg_attr(kani, kani::proof)]
        #[cfg_attr(kani, kani::unwind(11))]
        fn $name() {
            varint_param_case::<$ty>($table, |p| p.0.as_u64());
        }
    };
}

varint_param!(verif_tp_max_idle_timeout, MaxIdleTimeout, rfc_max_idle_timeout);
varint_param!(verif_tp_max_udp_payload_size, MaxUdpPayloadSize, rfc_max_udp_payload_size);
varint_param!(verif_tp_initial_max_data, InitialMaxData, rfc_any);
varint_param!(verif_tp_initial_max_stream_data_bidi_local, InitialMaxStreamDataBidiLocal, rfc_any);
varint_param!(verif_tp_initial_max_stream_data_bidi_remote, InitialMaxStreamDataBidiRemote, rfc_any);
varint_param!(verif_tp_initial_max_stream_data_uni, InitialMaxStreamDataUni, rfc_any);
varint_param!(verif_tp_initial_max_streams_bidi, InitialMaxStreamsBidi, rfc_max_streams);
varint_param!(verif_tp_initial_max_streams_uni, InitialMaxStreamsUni, rfc_max_streams);
varint_param!(verif_tp_max_datagram_frame_size, MaxDatagramFrameSize, rfc_any);
varint_param!(verif_tp_max_ack_delay, MaxAckDelay, rfc_max_ack_delay);
varint_param!(verif_tp_active_connection_id_limit, ActiveConnectionIdLimit, rfc_active_connection_id_limit);

// ack_delay_exponent is carried as a u8 by the implementation. The property quantifies over
// VALUES: every value <= 20 in its shortest encoding is accepted, every value > 20 (any encoding
// the codec can read, or none) is rejected.
#[cfg_attr(kani, kani::proof)]
#[cfg_attr(kani, kani::unwind(11))]
fn verif_tp_ack_delay_exponent() {
    let bytes: [u8; N] = kani::any();
    let len: usize = kani::any();
    kani::assume(len <= N);
    let buf = DecoderBuffer::new(&bytes[..len]);
    let res = buf.decode::<TransportParameterCodec<AckDelayExponent>>();
    let mut well_formed = None;
    if let Some((l, n1)) = ref_varint(&bytes[..len]) {
        let l = l as usize;
        if l <= N && n1 + l <= len {
            if let Some((v, n2)) = ref_varint(&bytes[n1..n1 + l]) {
                if n2 == l {
                    well_formed = Some((v, n1 + l, n2));
                }
            }
        }
    }
    // the implementation reads the exponent as one raw byte; for every value it may accept (< 64)
    // that is the 1-byte varint. Compare the final verdict (codec AND validate) with the table.
    let accepted = match res {
        Ok((p, rest)) => match p.0.validate() {
            Ok(p) => Some((p.0 as u64, len - rest.len())),
            Err(_) => None,
        },
        Err(_) => None,
    };
    match (accepted, well_formed) {
        (Some((got, used)), Some((v, consumed, n2))) => {
            assert!(got == v && used == consumed && n2 == 1);
            assert!(rfc_ack_delay_exponent(v) == Rfc::MustAccept);
            kani::cover!(v == 20, "largest permitted exponent accepted");
        }
        (Some(_), None) => panic!("accepted a malformed ack_delay_exponent"),
        (None, Some((v, _, n2))) => {
            // a permitted value in its shortest (1-byte) form must be accepted
            assert!(!(v <= 20 && n2 == 1));
            kani::cover!(v == 21, "21 rejected");
            kani::cover!(v <= 20 && n2 == 2, "non-minimal encoding of a permitted value rejected (observation, see DESIGN.md)");
        }
        (None, None) => {}
    }
}

// disable_active_migration is a zero-length flag
#[cfg_attr(kani, kani::proof)]
#[cfg_attr(kani, kani::unwind(11))]
fn verif_tp_disable_active_migration() {
    let bytes: [u8; 4] = kani::any();
    let len: usize = kani::any();
    kani::assume(len <= 4);
    let buf = DecoderBuffer::new(&bytes[..len]);
    let res = buf.decode::<TransportParameterCodec<MigrationSupport>>();
    if let Some((l, n1)) = ref_varint(&bytes[..len]) {
        if l == 0 {
            match res {
                Ok((p, rest)) => {
                    assert!(rest.len() == len - n1);
                    assert!(p.0 == MigrationSupport::Disabled);
                    assert!(p.0.validate().is_ok());
                    kani::cover!(true, "flag present");
                }
                Err(_) => panic!("zero-length disable_active_migration rejected"),
            }
        } else {
            // "This parameter is a zero-length value."
            assert!(res.is_err());
            kani::cover!(len >= 2, "non-empty flag rejected");
        }
    }
}

// stateless_reset_token: exactly 16 bytes
#[cfg_attr(kani, kani::proof)]
#[cfg_attr(kani, kani::unwind(19))]
fn verif_tp_stateless_reset_token() {
    let bytes: [u8; 18] = kani::any();
    let len: usize = kani::any();
    kani::assume(len <= 18);
    let buf = DecoderBuffer::new(&bytes[..len]);
    let res = buf.decode::<TransportParameterCodec<stateless_reset::Token>>();
    if let Some((l, n1)) = ref_varint(&bytes[..len]) {
        let ok = l == 16 && n1 + 16 <= len;
        match res {
            Ok((p, rest)) => {
                assert!(ok);
                assert!(rest.len() == len - n1 - 16);
                let k: usize = kani::any();
                kani::assume(k < 16);
                assert!(p.0.into_inner()[k] == bytes[n1 + k]);
                kani::cover!(true, "token decoded");
            }
            Err(_) => {
                assert!(!ok);
                kani::cover!(l == 15, "short token rejected");
            }
        }
    }
}

// validators alone, full 62-bit value range (no codec): the whole table in one query
#[cfg_attr(kani, kani::proof)]
fn verif_tp_validate_table() {
    let v: u64 = kani::any();
    kani::assume(v < (1 << 62));
    let vi = VarInt::new(v).unwrap();
    let chk = |accepted: bool, verdict: Rfc| {
        if verdict == Rfc::MustAccept {
            assert!(accepted);
        }
        if verdict == Rfc::MustReject {
            assert!(!accepted);
        }
    };
    chk(MaxIdleTimeout(vi).validate().is_ok(), rfc_max_idle_timeout(v));
    chk(MaxUdpPayloadSize(vi).validate().is_ok(), rfc_max_udp_payload_size(v));
    chk(InitialMaxData(vi).validate().is_ok(), rfc_any(v));
    chk(InitialMaxStreamDataBidiLocal(vi).validate().is_ok(), rfc_any(v));
    chk(InitialMaxStreamDataBidiRemote(vi).validate().is_ok(), rfc_any(v));
    chk(InitialMaxStreamDataUni(vi).validate().is_ok(), rfc_any(v));
    chk(InitialMaxStreamsBidi(vi).validate().is_ok(), rfc_max_streams(v));
    chk(InitialMaxStreamsUni(vi).validate().is_ok(), rfc_max_streams(v));
    chk(MaxDatagramFrameSize(vi).validate().is_ok(), rfc_any(v));
    chk(MaxAckDelay(vi).validate().is_ok(), rfc_max_ack_delay(v));
    chk(ActiveConnectionIdLimit(vi).validate().is_ok(), rfc_active_connection_id_limit(v));
    let b: u8 = kani::any();
    chk(AckDelayExponent(b).validate().is_ok(), rfc_ack_delay_exponent(b as u64));
    kani::cover!(v == 1 << 14, "max_ack_delay boundary value");
    kani::cover!(v == (1 << 60) + 1, "max_streams boundary value");
}

// C14 ("the limits the connection then operates under are exactly the ones the peer declared"):
// the step from a decoded parameter set to the limits handed to the stream manager and the ACK
// manager. For parameters with arbitrary values, flow_control_limits() reports, for any stream id,
// the limit RFC 9000 18.2 assigns to that stream: initial_max_stream_data_bidi_local for
// bidirectional streams opened by the endpoint that SENT the parameters, _bidi_remote for those
// opened by the receiver, _uni for unidirectional ones; connection data and stream counts one to one;
// ack_settings() carries max_ack_delay (milliseconds) and ack_delay_exponent unchanged.
#[cfg_attr(kani, kani::proof)]
#[cfg_attr(kani, kani::unwind(9))]
fn verif_tp_flow_control_limits() {
    use crate::{endpoint, stream::{StreamId, StreamType}};
    let v: [u32; 6] = kani::any();
    let mut tp = ClientTransportParameters::default();
    tp.initial_max_stream_data_bidi_local = InitialMaxStreamDataBidiLocal::new(VarInt::from_u32(v[0])).unwrap();
    tp.initial_max_stream_data_bidi_remote = InitialMaxStreamDataBidiRemote::new(VarInt::from_u32(v[1])).unwrap();
    tp.initial_max_stream_data_uni = InitialMaxStreamDataUni::new(VarInt::from_u32(v[2])).unwrap();
    tp.initial_max_data = InitialMaxData::new(VarInt::from_u32(v[3])).unwrap();
    tp.initial_max_streams_bidi = InitialMaxStreamsBidi::new(VarInt::from_u32(v[4])).unwrap();
    tp.initial_max_streams_uni = InitialMaxStreamsUni::new(VarInt::from_u32(v[5])).unwrap();
    let limits = tp.flow_control_limits();
    assert!(limits.max_data.as_u64() == v[3] as u64);
    assert!(limits.max_open_remote_bidirectional_streams.as_u64() == v[4] as u64);
    assert!(limits.max_open_remote_unidirectional_streams.as_u64() == v[5] as u64);
    // the sender of these parameters is a client
    let sender = endpoint::Type::Client;
    let initiator = if kani::any() { endpoint::Type::Client } else { endpoint::Type::Server };
    let ty = if kani::any() { StreamType::Bidirectional } else { StreamType::Unidirectional };
    let n: u64 = kani::any();
    kani::assume(n < (1 << 60));
    let id = StreamId::nth(initiator, ty, n).unwrap();
    let got = limits.stream_limits.max_data(sender, id).as_u64();
    let want = match ty {
        StreamType::Unidirectional => v[2],
        StreamType::Bidirectional if initiator == sender => v[0],
        StreamType::Bidirectional => v[1],
    };
    assert!(got == want as u64);
    kani::cover!(ty == StreamType::Bidirectional && initiator != sender && v[0] != v[1], "stream opened by the receiver of the parameters, asymmetric limits");
    kani::cover!(ty == StreamType::Unidirectional, "unidirectional stream");

    let d: u16 = kani::any();
    kani::assume(d < 1 << 14);
    let e: u8 = kani::any();
    kani::assume(e <= 20);
    tp.max_ack_delay = MaxAckDelay::new(VarInt::from_u16(d)).unwrap();
    tp.ack_delay_exponent = AckDelayExponent::new(e).unwrap();
    let ack = tp.ack_settings();
    assert!(ack.max_ack_delay == core::time::Duration::from_millis(d as u64));
    assert!(ack.ack_delay_exponent == e);
}

// NOT covered: the BLOCK decoder TransportParameters::decode_parameters (duplicate detection,
// unknown ids, role-specific ids). Measured out of reach four times: a 6-byte block
// `id 1 v  id 1 v` with symbolic ids - no result in 20 min; first id concrete - 20 min; both ids
// concrete, only the two value bytes symbolic - 20 min of symbolic execution, then 16 GB and growing
// after 21 min in a 2 h run. CBMC does not constant-fold the tag read after the first parameter, so
// every loop iteration executes all 20 field decoders (each with its varint pow() loops).

// ---- generated by tools/fixup.py: native replay entry ----
#[cfg(not(kani))]
#[test]
fn verif_replay() {
    kani::replay(&[
        ("verif_tp_ack_delay_exponent", verif_tp_ack_delay_exponent),
        ("verif_tp_disable_active_migration", verif_tp_disable_active_migration),
        ("verif_tp_stateless_reset_token", verif_tp_stateless_reset_token),
        ("verif_tp_validate_table", verif_tp_validate_table),
        ("verif_tp_flow_control_limits", verif_tp_flow_control_limits),
        ("verif_tp_max_idle_timeout", verif_tp_max_idle_timeout),
        ("verif_tp_max_udp_payload_size", verif_tp_max_udp_payload_size),
        ("verif_tp_initial_max_data", verif_tp_initial_max_data),
        ("verif_tp_initial_max_stream_data_bidi_local", verif_tp_initial_max_stream_data_bidi_local),
        ("verif_tp_initial_max_stream_data_bidi_remote", verif_tp_initial_max_stream_data_bidi_remote),
        ("verif_tp_initial_max_stream_data_uni", verif_tp_initial_max_stream_data_uni),
        ("verif_tp_initial_max_streams_bidi", verif_tp_initial_max_streams_bidi),
        ("verif_tp_initial_max_streams_uni", verif_tp_initial_max_streams_uni),
        ("verif_tp_max_datagram_frame_size", verif_tp_max_datagram_frame_size),
        ("verif_tp_max_ack_delay", verif_tp_max_ack_delay),
        ("verif_tp_active_connection_id_limit", verif_tp_active_connection_id_limit),
    ]);
}
