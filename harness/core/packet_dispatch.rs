// C05-O4 (dispatch): `ProtectedPacket::decode` = `PacketDecoder::decode_packet` on ANY byte string:
// never a panic, the packet kind chosen from the first byte / version is the one RFC 9000 17.2
// (Table 5), 17.2.1 and 17.3.1 prescribe, the per-type decoders are only entered with their
// precondition (first byte and, for long headers, the 4 version bytes present: they `expect` it),
// and accept/reject + version + connection id length + where the next coalesced packet starts agree
// with the independent reference parser in packet_ref.rs.  The field-by-field comparison of each
// packet type is done on the per-type decoders (packet_<type>.rs), with larger bounds.
use super::*;
#[cfg(not(kani))]
use crate::kani;

#[path = "/verif/harness/core/packet_ref.rs"]
mod packet_ref;
use packet_ref::*;

/// any connection-id provider (short headers): the verdict is chosen by the solver
struct AnyValidator(Option<usize>);

impl connection::id::Validator for AnyValidator {
    fn validate(&self, _info: &ConnectionInfo, _buffer: &[u8]) -> Option<usize> {
        self.0
    }
}

fn kind_of(p: &ProtectedPacket) -> RefKind {
    match p {
        ProtectedPacket::Short(_) => RefKind::Short,
        ProtectedPacket::VersionNegotiation(_) => RefKind::VersionNegotiation,
        ProtectedPacket::Initial(_) => RefKind::Initial,
        ProtectedPacket::ZeroRtt(_) => RefKind::ZeroRtt,
        ProtectedPacket::Handshake(_) => RefKind::Handshake,
        ProtectedPacket::Retry(_) => RefKind::Retry,
    }
}

struct Want {
    kind: RefKind,
    version: Option<u32>,
    dcid_len: usize,
    scid_len: Option<usize>,
    packet_len: usize,
}

/// the whole reference: kind from the first byte / version, then that kind's layout
fn reference(b: &[u8], verdict: Option<usize>) -> Option<Want> {
    let kind = ref_kind(b)?;
    match kind {
        RefKind::Short => {
            let r = ref_short(b, verdict)?;
            Some(Want { kind, version: None, dcid_len: r.dcid_len, scid_len: None, packet_len: b.len() })
        }
        RefKind::VersionNegotiation => {
            // connection ids <= 20: see the note in packet_version_negotiation.rs
            let r = ref_version_negotiation(b, V1_MAX_CID)?;
            Some(Want { kind, version: None, dcid_len: r.front.dcid_len, scid_len: Some(r.front.scid_len), packet_len: b.len() })
        }
        RefKind::Initial => {
            // connection ids <= 255 at this layer: see the note in packet_initial.rs
            let r = ref_numbered(b, true, INVARIANT_MAX_CID)?;
            Some(Want { kind, version: Some(r.front.version), dcid_len: r.front.dcid_len, scid_len: Some(r.front.scid_len), packet_len: r.packet_len })
        }
        RefKind::ZeroRtt | RefKind::Handshake => {
            let r = ref_numbered(b, false, V1_MAX_CID)?;
            Some(Want { kind, version: Some(r.front.version), dcid_len: r.front.dcid_len, scid_len: Some(r.front.scid_len), packet_len: r.packet_len })
        }
        RefKind::Retry => {
            let r = ref_retry(b)?;
            Some(Want { kind, version: Some(r.front.version), dcid_len: r.front.dcid_len, scid_len: Some(r.front.scid_len), packet_len: b.len() })
        }
    }
}

fn dispatch<const N: usize>(orig: [u8; N], len: usize) {
    let verdict: Option<usize> = if kani::any() { Some(kani::any()) } else { None };
    let validator = AnyValidator(verdict);
    let remote = crate::inet::SocketAddress::default();
    let info = ConnectionInfo::new(&remote);
    let mut bytes = orig;
    let res = ProtectedPacket::decode(DecoderBufferMut::new(&mut bytes[..len]), &info, &validator);
    match (res, reference(&orig[..len], verdict)) {
        (Ok((packet, rest)), Some(w)) => {
            kani::cover!(w.kind == RefKind::Short, "short header packet");
            kani::cover!(w.kind == RefKind::VersionNegotiation && orig[0] & 0x40 != 0, "version negotiation, fixed bit set");
            kani::cover!(w.kind == RefKind::VersionNegotiation && orig[0] & 0x40 == 0, "version negotiation, fixed bit clear");
            kani::cover!(w.kind == RefKind::Initial, "initial packet");
            kani::cover!(w.kind == RefKind::ZeroRtt, "0-RTT packet");
            kani::cover!(w.kind == RefKind::Retry, "retry packet");
            kani::cover!(w.kind == RefKind::Handshake && w.packet_len < len, "handshake packet followed by a coalesced packet");
            assert!(kind_of(&packet) == w.kind);
            assert!(packet.version() == w.version);
            assert!(packet.destination_connection_id().len() == w.dcid_len);
            match (packet.source_connection_id(), w.scid_len) {
                (Some(s), Some(n)) => assert!(s.len() == n),
                (None, None) => {}
                _ => panic!("source connection id presence does not follow the header form"),
            }
            assert!(rest.len() == len - w.packet_len);
        }
        (Err(_), None) => {
            kani::cover!(len == 0, "rejected: empty datagram");
            kani::cover!(len == 4 && orig[0] & 0x80 != 0, "rejected: long header without a complete version");
            kani::cover!(len == N && orig[0] >> 6 == 0b00, "rejected: short header with the fixed bit clear");
            kani::cover!(len == N && orig[0] >> 6 == 0b10 && orig[4] != 0, "rejected: long header with the fixed bit clear and a non-zero version");
        }
        (Ok(_), None) => panic!("decoder accepted a datagram the RFC reference rejects"),
        (Err(_), Some(_)) => panic!("decoder rejected a well-formed packet"),
    }
}

// every byte string of 0..=24 bytes (24 = the smallest complete Retry packet)
const N: usize = 24;

#[cfg_attr(kani, kani::proof)]
#[cfg_attr(kani, kani::unwind(9))]
fn verif_packet_dispatch_all() {
    let orig: [u8; N] = kani::any();
    let len: usize = kani::any();
    kani::assume(len <= N);
    dispatch(orig, len);
    // (Retry needs all 24 bytes for an empty-connection-id packet with a one-byte token)
}

// the Retry arm on its own with room for connection ids
const N_RETRY: usize = 32;

#[cfg_attr(kani, kani::proof)]
#[cfg_attr(kani, kani::unwind(9))]
fn verif_packet_dispatch_retry() {
    let orig: [u8; N_RETRY] = kani::any();
    let len: usize = kani::any();
    kani::assume(len <= N_RETRY);
    kani::assume(orig[0] >> 4 == 0b1111);
    let version_is_zero = orig[1] == 0 && orig[2] == 0 && orig[3] == 0 && orig[4] == 0;
    let mut bytes = orig;
    let remote = crate::inet::SocketAddress::default();
    let info = ConnectionInfo::new(&remote);
    let res = ProtectedPacket::decode(DecoderBufferMut::new(&mut bytes[..len]), &info, &AnyValidator(None));
    match (res, reference(&orig[..len], None)) {
        (Ok((packet, rest)), Some(w)) => {
            kani::cover!(w.kind == RefKind::Retry && w.dcid_len > 0, "retry packet with a destination connection id");
            kani::cover!(w.kind == RefKind::VersionNegotiation, "first byte 0xF? but version 0: version negotiation");
            assert!(kind_of(&packet) == w.kind);
            assert!((w.kind == RefKind::VersionNegotiation) == version_is_zero);
            assert!(packet.version() == w.version);
            assert!(packet.destination_connection_id().len() == w.dcid_len);
            assert!(rest.is_empty());
        }
        (Err(_), None) => {
            kani::cover!(len == 23, "rejected: too short for token and tag");
        }
        (Ok(_), None) => panic!("decoder accepted a datagram the RFC reference rejects"),
        (Err(_), Some(_)) => panic!("decoder rejected a well-formed packet"),
    }
}

// ---- generated by tools/fixup.py: native replay entry ----
#[cfg(not(kani))]
#[test]
fn verif_replay() {
    kani::replay(&[
        ("verif_packet_dispatch_all", verif_packet_dispatch_all),
        ("verif_packet_dispatch_retry", verif_packet_dispatch_retry),
    ]);
}
