// C16-O4 / C06-O1 / C01-O5: SlidingWindow == exact "set of the last 129 packet numbers" model.
// In-crate harness (child module of packet::number::sliding_window), compiled only under
// cfg(all(kani, aws_s2n_quic_verif)).
use super::*;
use crate::packet::number::PacketNumberSpace;
#[cfg(not(kani))]
use crate::kani;

const MAXPN: u64 = (1 << 62) - 1;

fn pn(v: u64) -> PacketNumber {
    PacketNumberSpace::ApplicationData.new_packet_number(VarInt::new(v).unwrap())
}

/// reference membership: is `q` recorded as received in (window, right_edge)?
fn model_has(window: u128, right_edge: Option<u64>, q: u64) -> bool {
    match right_edge {
        None => false,
        Some(r) => {
            if q == r {
                true
            } else if q < r && r - q <= 128 {
                (window >> (r - q - 1)) & 1 == 1
            } else {
                false
            }
        }
    }
}

/// arbitrary window state under the representation invariant
/// (no bit stands for a negative packet number; empty => no bits)
fn any_window() -> (SlidingWindow, u128, Option<u64>) {
    let window: u128 = kani::any();
    let has_edge: bool = kani::any();
    let r: u64 = kani::any();
    kani::assume(r <= MAXPN);
    if has_edge {
        if r < 128 {
            kani::assume(window >> r == 0);
        }
    } else {
        kani::assume(window == 0);
    }
    let edge = if has_edge { Some(r) } else { None };
    (
        SlidingWindow {
            window,
            right_edge: edge.map(pn),
        },
        window,
        edge,
    )
}

#[cfg_attr(kani, kani::proof)]
#[cfg_attr(kani, kani::unwind(2))]
fn verif_sliding_window_step() {
    let (mut w, window, edge) = any_window();
    let has_edge = edge.is_some();
    let r = edge.unwrap_or(0);

    let p: u64 = kani::any();
    kani::assume(p <= MAXPN);

    // check() must predict what insert() returns, without changing anything
    let predicted = w.check(pn(p));
    assert!(w.window == window);

    let res = w.insert_with_evicted_inner(pn(p));

    // expected verdict
    let too_old = has_edge && p < r && r - p > 128;
    let dup = model_has(window, edge, p);
    if too_old {
        assert!(matches!(res, Err(SlidingWindowError::TooOld)));
        assert!(predicted == Err(SlidingWindowError::TooOld));
    } else if dup {
        assert!(matches!(res, Err(SlidingWindowError::Duplicate)));
        assert!(predicted == Err(SlidingWindowError::Duplicate));
    } else {
        assert!(res.is_ok());
        assert!(predicted.is_ok());
    }

    // post-state: membership of an arbitrary q
    let q: u64 = kani::any();
    kani::assume(q <= MAXPN);
    let new_edge = match w.right_edge {
        Some(e) => Some(e.as_u64()),
        None => None,
    };
    let after = model_has(w.window, new_edge, q);
    let before = model_has(window, edge, q);
    match res {
        Err(_) => {
            assert!(w.window == window);
            assert!(new_edge == edge);
        }
        Ok(evicted) => {
            let ne = new_edge.unwrap();
            assert!(ne == if has_edge && r > p { r } else { p });
            let in_window = q <= ne && ne - q <= 128;
            let expect = in_window && (before || q == p);
            assert!(after == expect);
            // invariant preserved
            if ne < 128 {
                assert!(w.window >> ne == 0);
            }
            // evicted set = numbers that were inside the old window, not received, and are
            // now left of the new window (they can never be accepted any more)
            if has_edge {
                let was_in_old = q < r && r - q <= 128;
                let left_of_new = ne > q && ne - q > 128;
                let expect_evicted = was_in_old && !before && left_of_new;
                let d = r.wrapping_sub(q);
                // evicted.window bit layout: bit k <-> r - (k + 1), as in the window itself
                let got_evicted = was_in_old && (evicted.window >> (d - 1)) & 1 == 1;
                assert!(got_evicted == expect_evicted);
                assert!(evicted.right_edge.as_u64() == r || evicted.window == 0);
            } else {
                assert!(evicted.window == 0);
            }
            kani::cover!(has_edge && p > r && p - r < 128 && window != 0, "window slid, bits kept");
            kani::cover!(has_edge && p > r && p - r > 128, "window reset");
            kani::cover!(has_edge && p < r, "filled a hole inside the window");
        }
    }
    kani::cover!(too_old, "too old");
    kani::cover!(dup && p != r, "duplicate inside window");
}

// EvictedSet iteration yields exactly the set bits (as packet numbers), ascending.
// Bound: at most 2 set bits at arbitrary positions (loop runs once per set bit + 1).
#[cfg_attr(kani, kani::proof)]
#[cfg_attr(kani, kani::unwind(4))]
fn verif_evicted_set_iter() {
    let a: u32 = kani::any();
    let b: u32 = kani::any();
    kani::assume(a < 128 && b < 128 && a <= b);
    let two: bool = kani::any();
    let window: u128 = if two { (1u128 << a) | (1u128 << b) } else { 1u128 << a };
    let r: u64 = kani::any();
    // the set is only ever built with a new right edge >= r + (bits evicted), so r + 128 is a valid number
    kani::assume(r >= 128 && r <= MAXPN - 128);
    let mut set = EvictedSet {
        window,
        right_edge: pn(r),
    };
    // bit i of `window` (from the MSB: index 127 - i) stands for r - 128 + (127 - i) ... derive from
    // the sliding-window layout: bit k <-> r - (k + 1)
    let hi = r - (a as u64 + 1);
    let lo = r - (b as u64 + 1);
    let first = set.next();
    if two && a != b {
        assert!(first.map(|v| v.as_u64()) == Some(lo));
        let second = set.next();
        assert!(second.map(|v| v.as_u64()) == Some(hi));
    } else {
        assert!(first.map(|v| v.as_u64()) == Some(hi));
    }
    assert!(set.next().is_none());
    kani::cover!(two && a != b, "two distinct bits");
    kani::cover!(!two, "one bit");
}

// ---- generated by tools/fixup.py: native replay entry ----
#[cfg(not(kani))]
#[test]
fn verif_replay() {
    kani::replay(&[
        ("verif_sliding_window_step", verif_sliding_window_step),
        ("verif_evicted_set_iter", verif_evicted_set_iter),
    ]);
}
