// C05-O4 (1-RTT / short header packet, RFC 9000 17.3.1): the real header decoder / encoder vs the
// independent reference parser in packet_ref.rs.
//   1-RTT Packet {
//     Header Form (1) = 0, Fixed Bit (1) = 1, Spin Bit (1), Reserved Bits (2), Key Phase (1),
//     Packet Number Length (2), Destination Connection ID (0..160), Packet Number (8..32),
//     Packet Payload (8..),
//   }
// The Destination Connection ID length is not on the wire; the receiver recovers it with its
// connection-id `Validator` (RFC 9000 5.1 / 10.3.2).  The packet takes the rest of the datagram.
use super::*;
#[cfg(not(kani))]
use crate::kani;
use core::cell::Cell;
use s2n_codec::{DecoderBufferMut, Encoder, EncoderBuffer, EncoderValue};

#[path = "/verif/harness/core/packet_ref.rs"]
mod packet_ref;
use packet_ref::*;

/// Any connection-id provider: the verdict is chosen by the solver (including lengths that do not
/// fit the datagram and lengths above 20).  It also RECORDS what the decoder showed it.
struct AnyValidator {
    verdict: Option<usize>,
    seen_len: Cell<usize>,
    seen_first: Cell<u8>,
}

impl connection::id::Validator for AnyValidator {
    fn validate(&self, _info: &ConnectionInfo, buffer: &[u8]) -> Option<usize> {
        self.seen_len.set(buffer.len());
        self.seen_first.set(if buffer.is_empty() { 0 } else { buffer[0] });
        self.verdict
    }
}

const N: usize = 28;

// every byte string of 1..=28 bytes whose first byte says "short header" (0b01xx_xxxx), any verdict
// of the connection-id validator
#[cfg_attr(kani, kani::proof)]
#[cfg_attr(kani, kani::unwind(9))]
fn verif_packet_short_decode_diff() {
    let orig: [u8; N] = kani::any();
    let len: usize = kani::any();
    // the dispatcher has read the first byte
    kani::assume(len >= 1 && len <= N);
    kani::assume(orig[0] >> 6 == 0b01);
    let verdict: Option<usize> = if kani::any() { Some(kani::any()) } else { None };
    let validator = AnyValidator {
        verdict,
        seen_len: Cell::new(usize::MAX),
        seen_first: Cell::new(0),
    };
    let remote = crate::inet::SocketAddress::default();
    let info = ConnectionInfo::new(&remote);
    let mut bytes = orig;
    let res = ProtectedShort::decode(orig[0], DecoderBufferMut::new(&mut bytes[..len]), &info, &validator);
    // the validator is shown exactly the bytes that follow the first byte
    assert!(validator.seen_len.get() == len - 1);
    if len > 1 {
        assert!(validator.seen_first.get() == orig[1]);
    }
    match (res, ref_short(&orig[..len], verdict)) {
        (Ok((packet, rest)), Some(r)) => {
            kani::cover!(r.dcid_len == 20 && len == 21, "20-byte connection id filling the datagram");
            kani::cover!(r.dcid_len == 0, "zero-length connection id");
            kani::cover!(r.spin && r.dcid_len == 8 && len > 9, "spin bit set");
            assert!((packet.spin_bit == SpinBit::One) == r.spin);
            let dcid = packet.destination_connection_id();
            assert!(dcid.len() == r.dcid_len);
            let k: usize = kani::any();
            if k < r.dcid_len {
                assert!(dcid[k] == orig[r.dcid_at + k]);
            }
            assert!(packet.payload.header_len == r.header_len);
            // no Length field: the packet is the rest of the datagram
            assert!(packet.payload.len() == len);
            assert!(rest.is_empty());
            let j: usize = kani::any();
            if j < len {
                assert!(packet.payload.buffer.peek().into_less_safe_slice()[j] == orig[j]);
            }
        }
        (Err(_), None) => {
            kani::cover!(verdict == Some(21) && len == N, "rejected: 21-byte connection id");
            kani::cover!(verdict == Some(8) && len == 8, "rejected: connection id longer than the datagram");
            kani::cover!(verdict.is_none(), "rejected: validator does not recognise the connection id");
            kani::cover!(verdict == Some(usize::MAX), "rejected: absurd length from the validator");
        }
        (Ok(_), None) => panic!("decoder accepted a header the RFC reference rejects"),
        (Err(_), Some(_)) => panic!("decoder rejected a well-formed header"),
    }
}

// the stock fixed-length validator (`impl Validator for usize`) recovers exactly its length whenever
// the datagram holds that many bytes after the first byte
#[cfg_attr(kani, kani::proof)]
#[cfg_attr(kani, kani::unwind(9))]
fn verif_packet_short_fixed_len_validator() {
    let orig: [u8; N] = kani::any();
    let len: usize = kani::any();
    kani::assume(len >= 1 && len <= N);
    kani::assume(orig[0] >> 6 == 0b01);
    let local_len: usize = kani::any();
    let remote = crate::inet::SocketAddress::default();
    let info = ConnectionInfo::new(&remote);
    let mut bytes = orig;
    let res = ProtectedShort::decode(orig[0], DecoderBufferMut::new(&mut bytes[..len]), &info, &local_len);
    // 17.3.1 with a connection id of known length `local_len`
    match (res, ref_short(&orig[..len], Some(local_len))) {
        (Ok((packet, rest)), Some(r)) => {
            kani::cover!(local_len == 20, "20-byte connection ids");
            kani::cover!(local_len == 0 && len == 1, "a lone first byte is a header (no connection id)");
            assert!(packet.destination_connection_id().len() == local_len);
            assert!(packet.payload.header_len == r.header_len);
            assert!(packet.payload.len() == len);
            assert!(rest.is_empty());
        }
        (Err(_), None) => {
            kani::cover!(local_len == 21 && len == N, "rejected: endpoint configured with 21-byte connection ids");
            kani::cover!(local_len == 4 && len == 4, "rejected: datagram shorter than the connection id");
        }
        (Ok(_), None) => panic!("decoder accepted a header the RFC reference rejects"),
        (Err(_), Some(_)) => panic!("decoder rejected a well-formed header"),
    }
}

// encode -> reference parse -> decode.  `EncoderValue for Short<_, KeyPhase, TruncatedPacketNumber, _>`
// is the keyless whole-packet encoder; its header part is `Short::encode_header`, which the production
// `PacketEncoder::encode_packet` uses too.
const CID: usize = 20;
const PAYLOAD: usize = 4;
const CAP: usize = 1 + CID + 4 + PAYLOAD;

#[cfg_attr(kani, kani::proof)]
#[cfg_attr(kani, kani::unwind(22))]
fn verif_packet_short_roundtrip() {
    use crate::packet::number::TruncatedPacketNumber;
    let dcid_bytes: [u8; CID] = kani::any();
    let payload_bytes: [u8; PAYLOAD] = kani::any();
    let dl: usize = kani::any();
    let pl: usize = kani::any();
    kani::assume(dl <= CID && pl <= PAYLOAD);
    let spin: bool = kani::any();
    let phase: bool = kani::any();
    let raw: u32 = kani::any();
    let pn_len: usize = kani::any();
    kani::assume(pn_len >= 1 && pn_len <= 4);
    let space = PacketNumberSpace::ApplicationData;
    let (tpn, pn_val) = match pn_len {
        1 => (TruncatedPacketNumber::new(raw as u8, space), (raw as u8) as u32),
        2 => (TruncatedPacketNumber::new(raw as u16, space), (raw as u16) as u32),
        3 => (
            TruncatedPacketNumber::new(s2n_codec::u24::new_truncated(raw), space),
            raw & 0xff_ffff,
        ),
        _ => (TruncatedPacketNumber::new(raw, space), raw),
    };
    let packet = Short {
        spin_bit: if spin { SpinBit::One } else { SpinBit::Zero },
        key_phase: if phase { KeyPhase::One } else { KeyPhase::Zero },
        destination_connection_id: &dcid_bytes[..dl],
        packet_number: tpn,
        payload: &payload_bytes[..pl],
    };
    let mut storage = [0u8; CAP];
    let size = packet.encoding_size();
    let written = {
        let mut enc = EncoderBuffer::new(&mut storage);
        enc.encode(&packet);
        enc.len()
    };
    kani::cover!(written == CAP && spin && phase, "largest packet, spin and key phase set");
    kani::cover!(written == 2, "smallest packet");
    assert!(size == written);
    assert!(written == 1 + dl + pn_len + pl);
    // 17.3.1 first byte: form 0, fixed 1, spin, reserved 00, key phase, packet number length - 1
    let want0 = 0b0100_0000u8 | ((spin as u8) << 5) | ((phase as u8) << 2) | (pn_len as u8 - 1);
    assert!(storage[0] == want0);
    let orig = storage;
    match ref_short(&orig[..written], Some(dl)) {
        Some(r) => {
            assert!(r.spin == spin);
            let k: usize = kani::any();
            if k < dl {
                assert!(orig[r.dcid_at + k] == dcid_bytes[k]);
            }
            let mut want: u32 = 0;
            let mut i = 0;
            while i < pn_len {
                want = (want << 8) | orig[r.header_len + i] as u32;
                i += 1;
            }
            assert!(want == pn_val);
            if k < pl {
                assert!(orig[r.header_len + pn_len + k] == payload_bytes[k]);
            }
        }
        None => panic!("encoder output is not a well-formed 1-RTT packet"),
    }
    let remote = crate::inet::SocketAddress::default();
    let info = ConnectionInfo::new(&remote);
    let (back, rest) = ProtectedShort::decode(orig[0], DecoderBufferMut::new(&mut storage[..written]), &info, &dl).unwrap();
    assert!(rest.is_empty());
    assert!((back.spin_bit == SpinBit::One) == spin);
    assert!(back.destination_connection_id().len() == dl);
    let k: usize = kani::any();
    if k < dl {
        assert!(back.destination_connection_id()[k] == dcid_bytes[k]);
    }
    assert!(back.payload.header_len == 1 + dl);
    assert!(back.payload.len() == written);
    // the (still protected) key phase bit is where KeyPhase::from_tag will look for it
    assert!((KeyPhase::from_tag(orig[0]) == KeyPhase::One) == phase);
}


// receive path after the header decode: removing header protection from ANY accepted packet never
// panics; RFC 9001 5.4.2: the sample starts 4 bytes after the start of the Packet Number field
// ("the Packet Number field is assumed to be 4 bytes long") and "an endpoint MUST discard packets
// that are not long enough to contain a complete sample"; 5.4.1: the low 5 bits of a short header's
// first byte and the packet number bytes are unmasked, the packet number length is read AFTER
// unmasking the first byte.
struct MaskKey {
    mask: crate::crypto::HeaderProtectionMask,
    sample_len: usize,
}

impl crate::crypto::HeaderKey for MaskKey {
    fn opening_header_protection_mask(&self, sample: &[u8]) -> crate::crypto::HeaderProtectionMask {
        // the key is handed a sample of exactly the length it asked for
        assert!(sample.len() == self.sample_len);
        self.mask
    }
    fn opening_sample_len(&self) -> usize {
        self.sample_len
    }
    fn sealing_header_protection_mask(&self, _sample: &[u8]) -> crate::crypto::HeaderProtectionMask {
        self.mask
    }
    fn sealing_sample_len(&self) -> usize {
        self.sample_len
    }
}
impl crate::crypto::OneRttHeaderKey for MaskKey {}

const N_UNPROTECT: usize = 32;

#[cfg_attr(kani, kani::proof)]
#[cfg_attr(kani, kani::unwind(9))]
fn verif_packet_short_unprotect() {
    let orig: [u8; N_UNPROTECT] = kani::any();
    let len: usize = kani::any();
    kani::assume(len >= 1 && len <= N_UNPROTECT);
    kani::assume(orig[0] >> 6 == 0b01);
    let key = MaskKey {
        mask: kani::any(),
        sample_len: if kani::any() { 16 } else { 0 },
    };
    let largest: u64 = kani::any();
    // below 2^61 so that the expanded number is never clamped at the 2^62-1 ceiling
    kani::assume(largest < (1 << 61));
    let largest = PacketNumberSpace::ApplicationData.new_packet_number(crate::varint::VarInt::new(largest).unwrap());
    let local_len: usize = kani::any();
    kani::assume(local_len <= 20);
    let remote = crate::inet::SocketAddress::default();
    let info = ConnectionInfo::new(&remote);
    let mut bytes = orig;
    if let Ok((packet, _rest)) = ProtectedShort::decode(orig[0], DecoderBufferMut::new(&mut bytes[..len]), &info, &local_len) {
        let r = match ref_short(&orig[..len], Some(local_len)) {
            Some(r) => r,
            None => panic!("decoder accepted a header the RFC reference rejects"),
        };
        let long_enough = len - r.header_len >= 4 + key.sample_len;
        match packet.unprotect(&key, largest) {
            Ok(encrypted) => {
                kani::cover!(key.sample_len == 16 && key.mask[0] & 0x04 != 0, "16-byte sample, key phase bit masked");
                kani::cover!(key.sample_len == 0 && len == r.header_len + 4, "shortest packet that can be unprotected");
                assert!(long_enough);
                let first = orig[0] ^ (key.mask[0] & 0x1f);
                let pn_len = (first & 0x03) as usize + 1;
                assert!(encrypted.payload.get_tag() == first);
                // 17.3.1: the key phase is bit 0x04 of the UNMASKED first byte
                assert!((encrypted.key_phase == KeyPhase::One) == (first & 0x04 != 0));
                assert!((encrypted.spin_bit == SpinBit::One) == r.spin);
                assert!(encrypted.payload.header_len == r.header_len);
                assert!(encrypted.payload.packet_number_len.bytesize() == pn_len);
                let mut want: u64 = 0;
                let mut i = 0;
                while i < pn_len {
                    want = (want << 8) | (orig[r.header_len + i] ^ key.mask[1 + i]) as u64;
                    i += 1;
                }
                assert!(encrypted.packet_number.as_u64() & ((1u64 << (8 * pn_len)) - 1) == want);
                let j: usize = kani::any();
                if j >= 1 && j < len && !(j >= r.header_len && j < r.header_len + pn_len) {
                    assert!(encrypted.payload.buffer.peek().into_less_safe_slice()[j] == orig[j]);
                }
            }
            Err(_) => {
                kani::cover!(len == r.header_len + 3, "discarded: too short for a sample");
                assert!(!long_enough);
            }
        }
    }
}

// ---- generated by tools/fixup.py: native replay entry ----
#[cfg(not(kani))]
#[test]
fn verif_replay() {
    kani::replay(&[
        ("verif_packet_short_decode_diff", verif_packet_short_decode_diff),
        ("verif_packet_short_fixed_len_validator", verif_packet_short_fixed_len_validator),
        ("verif_packet_short_roundtrip", verif_packet_short_roundtrip),
        ("verif_packet_short_unprotect", verif_packet_short_unprotect),
    ]);
}
