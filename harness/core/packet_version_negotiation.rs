// C05-O4 / C11 (Version Negotiation packet, RFC 8999 section 6, RFC 9000 17.2.1 and 6.1): the real
// decoder / encoder vs the independent reference parser in packet_ref.rs.
//   Version Negotiation Packet {
//     Header Form (1) = 1, Unused (7), Version (32) = 0,
//     Destination Connection ID Length (8), Destination Connection ID (0..2040),
//     Source Connection ID Length (8), Source Connection ID (0..2040),
//     Supported Version (32) ...,
//   }
// NOTE on connection id lengths: the RFC layout allows 0..=255 bytes here; s2n-quic's decoder applies
// the version 1 limit of 20.  It only ever RECEIVES this packet as a version 1 client, whose own
// connection ids are <= 20 bytes, and a Version Negotiation packet that does not echo them is
// discarded anyway (RFC 9000 6.2), so longer ids can only occur in packets that would be dropped.
// The reference is therefore instantiated with 20; the harness `cid_bound` shows the boundary.
use super::*;
#[cfg(not(kani))]
use crate::kani;
use s2n_codec::{Encoder, EncoderBuffer};

#[path = "/verif/harness/core/packet_ref.rs"]
mod packet_ref;
use packet_ref::*;

fn be32(b: &[u8], at: usize) -> u32 {
    ((b[at] as u32) << 24) | ((b[at + 1] as u32) << 16) | ((b[at + 2] as u32) << 8) | b[at + 3] as u32
}

/// returns whether the packet was accepted (by both)
fn diff<const N: usize>(orig: [u8; N], len: usize) -> bool {
    let mut bytes = orig;
    // the dispatcher hands over the version it peeked; it only comes here when that is 0
    let res = ProtectedVersionNegotiation::decode(orig[0], be32(&orig, 1), DecoderBufferMut::new(&mut bytes[..len]));
    match (res, ref_version_negotiation(&orig[..len], V1_MAX_CID)) {
        (Ok((packet, rest)), Some(r)) => {
            kani::cover!(r.versions_len == 4 && r.front.dcid_len > 0 && r.front.scid_len > 0, "one version, both connection ids");
            kani::cover!(r.versions_len == 12, "three versions");
            kani::cover!(orig[0] & 0x40 == 0, "fixed bit clear (Unused bits are arbitrary)");
            assert!(packet.tag == orig[0]);
            assert!(packet.destination_connection_id.len() == r.front.dcid_len);
            let k: usize = kani::any();
            if k < r.front.dcid_len {
                assert!(packet.destination_connection_id[k] == orig[r.front.dcid_at + k]);
            }
            assert!(packet.source_connection_id.len() == r.front.scid_len);
            if k < r.front.scid_len {
                assert!(packet.source_connection_id[k] == orig[r.front.scid_at + k]);
            }
            // the list takes the rest of the datagram
            assert!(packet.supported_versions.len() == r.versions_len);
            if k < r.versions_len {
                assert!(packet.supported_versions[k] == orig[r.versions_at + k]);
            }
            assert!(rest.is_empty());
            // the iterator yields the big-endian 32-bit entries, all of them, in order
            let mut it = packet.iter();
            let mut i = 0usize;
            while i < N / 4 {
                match it.next() {
                    Some(v) => {
                        assert!(4 * i < r.versions_len);
                        assert!(v == be32(&orig, r.versions_at + 4 * i));
                    }
                    None => {
                        assert!(4 * i == r.versions_len);
                        break;
                    }
                }
                i += 1;
            }
            true
        }
        (Err(_), None) => {
            kani::cover!(len == 7 && orig[5] == 0 && orig[6] == 0, "rejected: no version listed");
            kani::cover!(len == 13 && orig[5] == 0 && orig[6] == 0, "rejected: trailing partial version");
            false
        }
        (Ok(_), None) => panic!("decoder accepted a packet the reference rejects"),
        (Err(_), Some(_)) => panic!("decoder rejected a well-formed packet"),
    }
}

// every byte string of 5..=32 bytes with the long-header bit set and Version = 0
const N: usize = 32;

#[cfg_attr(kani, kani::proof)]
#[cfg_attr(kani, kani::unwind(10))]
fn verif_packet_version_negotiation_decode_diff() {
    let orig: [u8; N] = kani::any();
    let len: usize = kani::any();
    kani::assume(len >= 5 && len <= N);
    kani::assume(orig[0] & 0x80 != 0);
    kani::assume(orig[1] == 0 && orig[2] == 0 && orig[3] == 0 && orig[4] == 0);
    diff(orig, len);
}

// room for two 21-byte connection ids and one version: 5 + 1 + 21 + 1 + 21 + 4 = 53 (56: 4-aligned
// for a second shape)
const N_CID: usize = 56;

#[cfg_attr(kani, kani::proof)]
#[cfg_attr(kani, kani::unwind(16))]
#[allow(unused_variables)]
fn verif_packet_version_negotiation_cid_bound() {
    let orig: [u8; N_CID] = kani::any();
    let len: usize = kani::any();
    kani::assume(len >= 5 && len <= N_CID);
    kani::assume(orig[0] & 0x80 != 0);
    kani::assume(orig[1] == 0 && orig[2] == 0 && orig[3] == 0 && orig[4] == 0);
    let accepted = diff(orig, len);
    let dl = orig[5] as usize;
    if dl <= 21 {
        let sl = orig[6 + dl] as usize;
        kani::cover!(accepted && dl == 20 && sl == 20, "20/20-byte connection ids accepted");
        kani::cover!(!accepted && len == 32 && dl == 21 && sl == 0, "rejected: 21-byte destination connection id in a complete packet");
        kani::cover!(!accepted && len == 32 && dl == 0 && sl == 21, "rejected: 21-byte source connection id in a complete packet");
    }
}

const CID: usize = 20;
const VERSIONS: usize = 3;
const CAP: usize = 1 + 4 + 1 + CID + 1 + CID + 4 * VERSIONS;

// encode -> reference parse -> decode
#[cfg_attr(kani, kani::proof)]
#[cfg_attr(kani, kani::unwind(22))]
fn verif_packet_version_negotiation_roundtrip() {
    let tag: u8 = kani::any();
    let dcid_bytes: [u8; CID] = kani::any();
    let scid_bytes: [u8; CID] = kani::any();
    let version_bytes: [u8; 4 * VERSIONS] = kani::any();
    let dl: usize = kani::any();
    let sl: usize = kani::any();
    let nv: usize = kani::any();
    kani::assume(dl <= CID && sl <= CID && nv >= 1 && nv <= VERSIONS);
    let packet = VersionNegotiation {
        tag,
        destination_connection_id: &dcid_bytes[..dl],
        source_connection_id: &scid_bytes[..sl],
        supported_versions: &version_bytes[..4 * nv],
    };
    let mut storage = [0u8; CAP];
    let size = packet.encoding_size();
    let written = {
        let mut enc = EncoderBuffer::new(&mut storage);
        enc.encode(&packet);
        enc.len()
    };
    kani::cover!(written == CAP, "largest packet");
    kani::cover!(written == 11, "smallest packet");
    assert!(size == written);
    assert!(written == 7 + dl + sl + 4 * nv);
    // long-header form; 17.2.1: "SHOULD set the [0x40] bit to 1 if QUIC might be multiplexed"
    assert!(storage[0] == tag | 0xc0);
    let orig = storage;
    let k: usize = kani::any();
    match ref_version_negotiation(&orig[..written], V1_MAX_CID) {
        Some(r) => {
            assert!(r.front.version == 0);
            assert!(r.front.dcid_len == dl && r.front.scid_len == sl && r.versions_len == 4 * nv);
            if k < dl {
                assert!(orig[r.front.dcid_at + k] == dcid_bytes[k]);
            }
            if k < sl {
                assert!(orig[r.front.scid_at + k] == scid_bytes[k]);
            }
            if k < 4 * nv {
                assert!(orig[r.versions_at + k] == version_bytes[k]);
            }
        }
        None => panic!("encoder output is not a well-formed Version Negotiation packet"),
    }
    let (back, rest) = ProtectedVersionNegotiation::decode(orig[0], 0, DecoderBufferMut::new(&mut storage[..written])).unwrap();
    assert!(rest.is_empty());
    assert!(back.tag == tag | 0xc0);
    assert!(back.destination_connection_id.len() == dl);
    assert!(back.source_connection_id.len() == sl);
    assert!(back.supported_versions.len() == 4 * nv);
    if k < dl {
        assert!(back.destination_connection_id[k] == dcid_bytes[k]);
    }
    if k < sl {
        assert!(back.source_connection_id[k] == scid_bytes[k]);
    }
    if k < 4 * nv {
        assert!(back.supported_versions[k] == version_bytes[k]);
    }
}

// C11 / 17.2.1: the reply a server builds from an Initial of an unsupported version
//  * echoes the client's Source Connection ID as Destination Connection ID and the client's
//    Destination Connection ID as Source Connection ID (both MUST),
//  * is, apart from its list of versions, smaller than the header of the Initial that triggered it:
//    reply = 7 + |scid| + |dcid| + |versions|, trigger >= 9 + |dcid| + |scid|  (Token Length and
//    Length fields), so reply + 2 <= trigger + |versions|.  A reply with up to 300 versions is thus
//    never larger than a trigger of >= 1200 bytes (the only ones answered: transport
//    endpoint/version.rs, outside core).
//  * can only be built from an Initial (type `&ProtectedInitial`): never in reply to Version Negotiation.
const N_INITIAL: usize = 32;

#[cfg_attr(kani, kani::proof)]
#[cfg_attr(kani, kani::unwind(9))]
fn verif_packet_version_negotiation_from_initial() {
    let orig: [u8; N_INITIAL] = kani::any();
    let len: usize = kani::any();
    kani::assume(len >= 5 && len <= N_INITIAL);
    kani::assume(orig[0] >> 4 == 0b1100);
    let mut bytes = orig;
    let version_bytes: [u8; 4 * VERSIONS] = kani::any();
    let nv: usize = kani::any();
    kani::assume(nv >= 1 && nv <= VERSIONS);
    if let Ok((initial, _rest)) = ProtectedInitial::decode(orig[0], be32(&orig, 1), DecoderBufferMut::new(&mut bytes[..len])) {
        let trigger_len = initial.payload.len();
        let reply = VersionNegotiation::from_initial(&initial, &version_bytes[..4 * nv]);
        let mut storage = [0u8; N_INITIAL + 4 * VERSIONS];
        let written = {
            let mut enc = EncoderBuffer::new(&mut storage);
            enc.encode(&reply);
            enc.len()
        };
        kani::cover!(written == trigger_len - 2 + 4 * nv, "largest reply relative to its trigger");
        kani::cover!(written + 20 < trigger_len, "reply much smaller than its trigger");
        assert!(written + 2 <= trigger_len + 4 * nv);
        match (ref_numbered(&orig[..len], true, INVARIANT_MAX_CID), ref_version_negotiation(&storage[..written], INVARIANT_MAX_CID)) {
            (Some(i), Some(r)) => {
                assert!(written == 7 + i.front.dcid_len + i.front.scid_len + 4 * nv);
                // connection ids swapped
                assert!(r.front.dcid_len == i.front.scid_len);
                assert!(r.front.scid_len == i.front.dcid_len);
                let k: usize = kani::any();
                if k < r.front.dcid_len {
                    assert!(storage[r.front.dcid_at + k] == orig[i.front.scid_at + k]);
                }
                if k < r.front.scid_len {
                    assert!(storage[r.front.scid_at + k] == orig[i.front.dcid_at + k]);
                }
                assert!(r.versions_len == 4 * nv);
                if k < 4 * nv {
                    assert!(storage[r.versions_at + k] == version_bytes[k]);
                }
            }
            _ => panic!("trigger or reply is not well-formed"),
        }
    }
}

// ---- generated by tools/fixup.py: native replay entry ----
#[cfg(not(kani))]
#[test]
fn verif_replay() {
    kani::replay(&[
        ("verif_packet_version_negotiation_decode_diff", verif_packet_version_negotiation_decode_diff),
        ("verif_packet_version_negotiation_cid_bound", verif_packet_version_negotiation_cid_bound),
        ("verif_packet_version_negotiation_roundtrip", verif_packet_version_negotiation_roundtrip),
        ("verif_packet_version_negotiation_from_initial", verif_packet_version_negotiation_from_initial),
    ]);
}
