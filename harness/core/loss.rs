// C09-O1: loss::detect vs the RFC 9002 section 6.1 predicate.
// Times are 16-bit microsecond offsets from the clock base (real Timestamp arithmetic at wider
// widths stalls the SAT solver, measured); packet numbers and the packet threshold are full width.
use super::*;
#[cfg(not(kani))]
use crate::kani;
use crate::{
    packet::number::PacketNumberSpace,
    time::{Clock, NoopClock},
    varint::VarInt,
};

fn pn(v: u64) -> PacketNumber {
    PacketNumberSpace::ApplicationData.new_packet_number(VarInt::new(v).unwrap())
}

struct In {
    sent_us: u16,
    now_us: u16,
    thr_us: u16,
    p: u64,
    la: u64,
    k: u64,
}

fn any_in() -> In {
    let i = In {
        sent_us: kani::any(),
        now_us: kani::any(),
        thr_us: kani::any(),
        p: kani::any(),
        la: kani::any(),
        k: kani::any(),
    };
    kani::assume(i.p < i.la && i.la < (1 << 62));
    kani::assume(i.sent_us <= i.now_us);
    i
}

struct Out {
    outcome: Outcome,
    /// time_sent + threshold, computed with the library's own Timestamp + Duration
    deadline: Timestamp,
    now: Timestamp,
}

fn run(i: &In) -> Out {
    let base = NoopClock.get_time();
    let time_sent = base + Duration::from_micros(i.sent_us as u64);
    let now = base + Duration::from_micros(i.now_us as u64);
    let thr = Duration::from_micros(i.thr_us as u64);
    let deadline = time_sent + thr;
    Out {
        outcome: detect(thr, time_sent, i.k, pn(i.p), pn(i.la), now),
        deadline,
        now,
    }
}

// The implementation's logic modulo the recorded finding: Lost <=> number threshold reached OR the
// deadline has "elapsed" in the Timer sense (deadline < now + kGranularity); otherwise the returned
// lost_time is exactly time_sent + threshold.  (Timestamp arithmetic itself: verif_timestamp_arith)
#[cfg_attr(kani, kani::proof)]
#[cfg_attr(kani, kani::unwind(2))]
fn verif_loss_detect_logic() {
    let i = any_in();
    let o = run(&i);
    let by_number = i.la - i.p >= i.k;
    let by_time = o.deadline.has_elapsed(o.now);
    match o.outcome {
        Outcome::Lost => assert!(by_number || by_time),
        Outcome::NotLostYet { lost_time } => {
            assert!(!by_number && !by_time);
            assert!(lost_time == o.deadline);
        }
    }
    kani::cover!(by_number && !by_time, "lost by packet threshold only");
    kani::cover!(!by_number && by_time, "lost by time threshold only");
    kani::cover!(!by_number && !by_time, "not lost yet");
}

/// true iff the inputs lie in the region of the recorded finding: the deadline is in the future
/// but less than kGranularity (1 ms) away
fn early_region(o: &Out) -> bool {
    o.deadline > o.now && o.deadline.has_elapsed(o.now)
}

fn strict(i: &In, o: &Out) {
    let by_number = i.la - i.p >= i.k;
    // the property's predicate: sent at least `threshold` ago
    let by_time = o.now >= o.deadline;
    match o.outcome {
        Outcome::Lost => assert!(by_number || by_time),
        Outcome::NotLostYet { lost_time } => {
            assert!(!by_number && !by_time);
            assert!(lost_time == o.deadline);
        }
    }
}

// strict predicate everywhere outside the finding's region: must hold
#[cfg_attr(kani, kani::proof)]
#[cfg_attr(kani, kani::unwind(2))]
fn verif_loss_detect_strict_outside_finding() {
    let i = any_in();
    let o = run(&i);
    kani::assume(!early_region(&o));
    strict(&i, &o);
    kani::cover!(o.now >= o.deadline, "deadline passed");
    kani::cover!(!o.deadline.has_elapsed(o.now), "deadline at least 1 ms away");
}

// witness of the recorded finding: inside the region the strict predicate is expected to FAIL
#[cfg_attr(kani, kani::proof)]
#[cfg_attr(kani, kani::unwind(2))]
fn verif_loss_detect_finding_witness() {
    let i = any_in();
    let o = run(&i);
    kani::assume(early_region(&o));
    // keep the number threshold out of the picture: the packet is not lost by number
    kani::assume(i.la - i.p < i.k);
    kani::cover!(true, "region reachable");
    strict(&i, &o);
}

// Timestamp arithmetic used above is exact: comparisons of (base + a us) are integer comparisons
// and has_elapsed is `deadline < now + 1 ms`.
#[cfg_attr(kani, kani::proof)]
#[cfg_attr(kani, kani::unwind(2))]
fn verif_timestamp_compare() {
    let a: u16 = kani::any();
    let b: u16 = kani::any();
    let base = NoopClock.get_time();
    let ta = base + Duration::from_micros(a as u64);
    let tb = base + Duration::from_micros(b as u64);
    assert!((ta <= tb) == (a <= b));
    assert!((ta == tb) == (a == b));
    assert!(ta.has_elapsed(tb) == ((a as u32) < b as u32 + 1000));
    kani::cover!(a < b && ta.has_elapsed(tb), "elapsed");
    kani::cover!(a > b && (a as u32) < b as u32 + 1000, "elapsed early, within granularity");
}

// adding / subtracting microsecond durations is integer addition / subtraction
#[cfg_attr(kani, kani::proof)]
#[cfg_attr(kani, kani::unwind(2))]
fn verif_timestamp_add_sub() {
    let a: u16 = kani::any();
    let b: u16 = kani::any();
    kani::assume(a < 4096 && b < 4096);
    let base = NoopClock.get_time();
    let ta = base + Duration::from_micros(a as u64);
    let tb = base + Duration::from_micros(b as u64);
    let sum = ta + Duration::from_micros(b as u64);
    assert!(sum == base + Duration::from_micros(a as u64 + b as u64));
    if a <= b {
        assert!(tb - ta == Duration::from_micros((b - a) as u64));
        assert!(tb.saturating_duration_since(ta) == Duration::from_micros((b - a) as u64));
    } else {
        assert!(tb.saturating_duration_since(ta) == Duration::ZERO);
    }
    kani::cover!(a < b, "later");
    kani::cover!(a > b, "earlier");
}

// ---- generated by tools/fixup.py: native replay entry ----
#[cfg(not(kani))]
#[test]
fn verif_replay() {
    kani::replay(&[
        ("verif_loss_detect_logic", verif_loss_detect_logic),
        ("verif_loss_detect_strict_outside_finding", verif_loss_detect_strict_outside_finding),
        ("verif_loss_detect_finding_witness", verif_loss_detect_finding_witness),
        ("verif_timestamp_compare", verif_timestamp_compare),
        ("verif_timestamp_add_sub", verif_timestamp_add_sub),
    ]);
}
