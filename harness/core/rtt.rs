// C09-O2/O3: RttEstimator one step from an arbitrary estimator state; PTO and loss-time threshold.
use super::*;
#[cfg(not(kani))]
use crate::kani;

/// `maxns == 0` selects the quick-tier domain: microsecond-granular 16-bit values (<= 65.5 ms),
/// whose constant upper bits keep the ns <-> us <-> Duration divisions cheap for the SAT solver;
/// otherwise an arbitrary nanosecond value <= maxns
fn dur_ns(maxns: u64) -> Duration {
    if maxns == 0 {
        let us: u16 = kani::any();
        Duration::from_micros(us as u64)
    } else {
        let n: u64 = kani::any();
        kani::assume(n <= maxns);
        Duration::from_nanos(n)
    }
}

/// arbitrary estimator with every duration <= maxns; invariant: MIN_RTT <= min_rtt <= latest_rtt,
/// smoothed_rtt >= 8*floor(min_rtt/8) (what update_rtt's divide-then-multiply average preserves)
fn any_est(maxns: u64) -> RttEstimator {
    let latest = dur_ns(maxns);
    let min_rtt = dur_ns(maxns);
    let smoothed = dur_ns(maxns);
    let rttvar = dur_ns(maxns);
    let mad = if maxns == 0 {
        let ms: u16 = kani::any();
        kani::assume(ms < 16384);
        Duration::from_millis(ms as u64)
    } else {
        dur_ns(16_383_000_000)
    };
    kani::assume(min_rtt >= MIN_RTT && min_rtt <= latest);
    let m8 = (min_rtt.as_nanos() as u64 / 8) * 8;
    kani::assume(smoothed.as_nanos() as u64 >= m8);
    let has_first: bool = kani::any();
    use crate::time::Clock as _;
    let now = crate::time::NoopClock.get_time();
    RttEstimator {
        latest_rtt: latest,
        min_rtt,
        smoothed_rtt: smoothed,
        rttvar,
        max_ack_delay: mad,
        first_rtt_sample: if has_first { Some(now) } else { None },
    }
}

fn update_bounds(maxns: u64) {
    let mut est = any_est(maxns);
    let before = est;
    use crate::time::Clock as _;
    let now = crate::time::NoopClock.get_time();
    let sample = dur_ns(maxns);
    let ack_delay = dur_ns(maxns);
    let confirmed: bool = kani::any();
    let space = if kani::any() {
        PacketNumberSpace::Initial
    } else {
        PacketNumberSpace::ApplicationData
    };
    est.update_rtt(ack_delay, sample, now, confirmed, space);
    let s = sample.max(MIN_RTT);
    assert!(est.latest_rtt == s);
    assert!(est.max_ack_delay == before.max_ack_delay);
    if before.first_rtt_sample.is_some() {
        // RFC 9002 5.2: min_rtt is the minimum of all samples
        assert!(est.min_rtt == before.min_rtt.min(s));
        // RFC 9002 5.3: the smoothed value stays between the smallest sample (modulo the
        // implementation's /8 rounding) and the larger of old estimate and new sample
        let lo = (est.min_rtt.as_nanos() as u64 / 8) * 8;
        assert!(est.smoothed_rtt.as_nanos() as u64 >= lo);
        assert!(est.smoothed_rtt <= before.smoothed_rtt.max(s));
        // rttvar never exceeds max(old rttvar, |smoothed - sample|) which is < the larger input
        assert!(est.rttvar <= before.rttvar.max(before.smoothed_rtt.max(s)));
        // ack delay is only subtracted when the result stays above min_rtt: an adjusted sample
        // below min_rtt would show up as smoothed' < 7/8 smoothed + min_rtt/8 - rounding
        let floor = 7 * (before.smoothed_rtt.as_nanos() as u64 / 8) + est.min_rtt.as_nanos() as u64 / 8;
        assert!(est.smoothed_rtt.as_nanos() as u64 >= floor || est.smoothed_rtt == before.smoothed_rtt);
        kani::cover!(est.smoothed_rtt < before.smoothed_rtt, "estimate moved down");
        kani::cover!(est.smoothed_rtt > before.smoothed_rtt, "estimate moved up");
        kani::cover!(est.smoothed_rtt == before.smoothed_rtt && est.rttvar == before.rttvar && !confirmed, "sample ignored before handshake confirmation");
    } else {
        assert!(est.min_rtt == s && est.smoothed_rtt == s && est.rttvar == s / 2);
        assert!(est.first_rtt_sample == Some(now));
        kani::cover!(true, "first sample");
    }
}

// quick: all durations < 2^24 ns (16.7 ms)
#[cfg_attr(kani, kani::proof)]
#[cfg_attr(kani, kani::unwind(2))]
fn verif_rtt_update_bounds_24() {
    update_bounds((1 << 24) - 1);
}

// thorough: all durations < 2^32 ns (4.29 s)
#[cfg_attr(kani, kani::proof)]
#[cfg_attr(kani, kani::unwind(2))]
fn verif_rtt_update_bounds_32() {
    update_bounds(u32::MAX as u64);
}

// RFC 9002 6.2.1 in the implementation's own unit (whole microseconds):
// PTO = (smoothed + max(4 rttvar, granularity) [+ max_ack_delay]) * backoff; hence never below the
// granularity and doubling with each consecutive expiry.
fn pto_formula(maxns: u64) {
    let est = any_est(maxns);
    let space = if kani::any() {
        PacketNumberSpace::Initial
    } else {
        PacketNumberSpace::ApplicationData
    };
    let us = |d: Duration| d.as_micros() as u64;
    let mut expect = us(est.smoothed_rtt) + core::cmp::max(us(est.rttvar_4x()), 1000);
    if space.is_application_data() {
        expect += us(est.max_ack_delay);
    }
    let b1 = est.calculate_base_pto_micros(1, space);
    let b2 = est.calculate_base_pto_micros(2, space);
    let b4 = est.calculate_base_pto_micros(4, space);
    assert!(b1 == expect);
    assert!(b2 == 2 * b1 && b4 == 2 * b2);
    assert!(b1 >= 1000);
    kani::cover!(space.is_application_data() && us(est.max_ack_delay) > 0, "max_ack_delay included");
    kani::cover!(us(est.rttvar_4x()) < 1000, "rttvar term clamped to granularity");
}

#[cfg_attr(kani, kani::proof)]
#[cfg_attr(kani, kani::unwind(2))]
fn verif_rtt_pto_formula_us16() {
    pto_formula(0);
}

#[cfg_attr(kani, kani::proof)]
#[cfg_attr(kani, kani::unwind(2))]
fn verif_rtt_pto_formula_32() {
    pto_formula(u32::MAX as u64);
}

// the 4*rttvar term is exactly four times rttvar (whole microseconds), and the loss-time threshold
// is RFC 9002 6.1.2: 9/8 * max(smoothed, latest), at least the granularity. Both compared as
// Durations built from the same integers (re-inverting Duration::from_nanos/from_micros costs the
// SAT solver a 64-bit division proof and says nothing about s2n-quic).
fn threshold_formula(maxns: u64) {
    let est = any_est(maxns);
    let us = |d: Duration| d.as_micros() as u64;
    assert!(est.rttvar_4x() == Duration::from_micros(4 * us(est.rttvar)));
    let t = est.loss_time_threshold();
    let m = core::cmp::max(est.smoothed_rtt.as_nanos() as u64, est.latest_rtt.as_nanos() as u64);
    assert!(t == Duration::from_nanos((m + m / 8).max(1_000_000)));
    kani::cover!(m + m / 8 > 1_000_000, "threshold above granularity");
    kani::cover!(m + m / 8 < 1_000_000, "threshold clamped to granularity");
}

#[cfg_attr(kani, kani::proof)]
#[cfg_attr(kani, kani::unwind(2))]
fn verif_rtt_threshold_us16() {
    threshold_formula(0);
}

#[cfg_attr(kani, kani::proof)]
#[cfg_attr(kani, kani::unwind(2))]
fn verif_rtt_threshold_32() {
    threshold_formula(u32::MAX as u64);
}

// pto_period() is the base PTO clamped to the granularity (thorough: equality of two Durations)
#[cfg_attr(kani, kani::proof)]
#[cfg_attr(kani, kani::unwind(2))]
fn verif_rtt_pto_period_us16() {
    let est = any_est(0);
    let space = if kani::any() {
        PacketNumberSpace::Initial
    } else {
        PacketNumberSpace::ApplicationData
    };
    let b1 = est.calculate_base_pto_micros(1, space);
    let p1 = est.pto_period(1, space);
    let p2 = est.pto_period(2, space);
    assert!(p1 == Duration::from_micros(b1.max(1000)));
    assert!(p2 == Duration::from_micros((2 * b1).max(1000)));
    kani::cover!(true, "pto period computed");
}

// quick: microsecond-granular durations <= 65.5 ms
#[cfg_attr(kani, kani::proof)]
#[cfg_attr(kani, kani::unwind(2))]
fn verif_rtt_update_bounds_us16() {
    update_bounds(0);
}

// ---- generated by tools/fixup.py: native replay entry ----
#[cfg(not(kani))]
#[test]
fn verif_replay() {
    kani::replay(&[
        ("verif_rtt_update_bounds_24", verif_rtt_update_bounds_24),
        ("verif_rtt_update_bounds_32", verif_rtt_update_bounds_32),
        ("verif_rtt_pto_formula_us16", verif_rtt_pto_formula_us16),
        ("verif_rtt_pto_formula_32", verif_rtt_pto_formula_32),
        ("verif_rtt_threshold_us16", verif_rtt_threshold_us16),
        ("verif_rtt_threshold_32", verif_rtt_threshold_32),
        ("verif_rtt_pto_period_us16", verif_rtt_pto_period_us16),
        ("verif_rtt_update_bounds_us16", verif_rtt_update_bounds_us16),
    ]);
}
