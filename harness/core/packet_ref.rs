// C05-O4: INDEPENDENT reference parser for QUIC packet headers, transcribed from RFC 9000 section 17
// (17.2 long header, 17.2.1 Version Negotiation, 17.2.2 Initial, 17.2.3 0-RTT, 17.2.4 Handshake,
// 17.2.5 Retry, 17.3.1 1-RTT) and the RFC 8999 invariants.  It shares no code with s2n-quic: plain
// index arithmetic over a byte slice.  Included by every harness/core/packet_*.rs with
// `#[path = "/verif/harness/core/packet_ref.rs"] mod packet_ref;` (no harness in here).
#![allow(dead_code)]

/// RFC 9000 section 16 variable-length integer: (value, bytes consumed).  No loop, so the unwinding
/// bound of the harnesses is set by their own loops only.
pub fn ref_varint(b: &[u8]) -> Option<(u64, usize)> {
    if b.is_empty() {
        return None;
    }
    let v0 = (b[0] & 0x3f) as u64;
    match b[0] >> 6 {
        0 => Some((v0, 1)),
        1 => {
            if b.len() < 2 {
                return None;
            }
            Some(((v0 << 8) | b[1] as u64, 2))
        }
        2 => {
            if b.len() < 4 {
                return None;
            }
            Some((
                (v0 << 24) | ((b[1] as u64) << 16) | ((b[2] as u64) << 8) | b[3] as u64,
                4,
            ))
        }
        _ => {
            if b.len() < 8 {
                return None;
            }
            Some((
                (v0 << 56)
                    | ((b[1] as u64) << 48)
                    | ((b[2] as u64) << 40)
                    | ((b[3] as u64) << 32)
                    | ((b[4] as u64) << 24)
                    | ((b[5] as u64) << 16)
                    | ((b[6] as u64) << 8)
                    | b[7] as u64,
                8,
            ))
        }
    }
}

/// RFC 9000 17.2: "In QUIC version 1, this value MUST NOT exceed 20 bytes. Endpoints that receive a
/// version 1 long header with a value larger than 20 MUST drop the packet."
pub const V1_MAX_CID: usize = 20;
/// RFC 8999 5.1: the length is an 8-bit field, i.e. version-independently 0..=255
pub const INVARIANT_MAX_CID: usize = 255;

/// The front of every long header (RFC 8999 5.1 / RFC 9000 17.2):
///   Header Form (1) = 1, Version-Specific Bits (7), Version (32),
///   Destination Connection ID Length (8), Destination Connection ID (0..2040),
///   Source Connection ID Length (8), Source Connection ID (0..2040)
pub struct RefLongFront {
    pub version: u32,
    pub dcid_at: usize,
    pub dcid_len: usize,
    pub scid_at: usize,
    pub scid_len: usize,
    /// offset of the first byte after the Source Connection ID
    pub end: usize,
}

pub fn ref_long_front(b: &[u8], max_cid: usize) -> Option<RefLongFront> {
    if b.len() < 5 {
        return None;
    }
    if b[0] & 0x80 == 0 {
        return None;
    }
    let version = ((b[1] as u32) << 24) | ((b[2] as u32) << 16) | ((b[3] as u32) << 8) | b[4] as u32;
    let mut at = 5usize;
    if at >= b.len() {
        return None;
    }
    let dcid_len = b[at] as usize;
    at += 1;
    if dcid_len > max_cid {
        return None;
    }
    if b.len() - at < dcid_len {
        return None;
    }
    let dcid_at = at;
    at += dcid_len;
    if at >= b.len() {
        return None;
    }
    let scid_len = b[at] as usize;
    at += 1;
    if scid_len > max_cid {
        return None;
    }
    if b.len() - at < scid_len {
        return None;
    }
    let scid_at = at;
    at += scid_len;
    Some(RefLongFront {
        version,
        dcid_at,
        dcid_len,
        scid_at,
        scid_len,
        end: at,
    })
}

/// Long-header packets that carry a Length field (Initial 17.2.2, 0-RTT 17.2.3, Handshake 17.2.4):
///   <front>, [Token Length (i), Token (..)]  (Initial only), Length (i), Packet Number (8..32),
///   Packet Payload (8..)
/// "Length: This is the length of the remainder of the packet (that is, the Packet Number and
///  Payload fields) in bytes" - the packet ends Length bytes after the Length field; anything after
/// that is the next coalesced packet (RFC 9000 12.2).
pub struct RefNumbered {
    pub front: RefLongFront,
    pub token_at: usize,
    pub token_len: usize,
    /// offset of the Packet Number field = end of the unprotected header
    pub header_len: usize,
    /// value of the Length field
    pub length: u64,
    /// offset of the first byte after this packet
    pub packet_len: usize,
}

pub fn ref_numbered(b: &[u8], has_token: bool, max_cid: usize) -> Option<RefNumbered> {
    let front = ref_long_front(b, max_cid)?;
    let mut at = front.end;
    let mut token_at = at;
    let mut token_len = 0usize;
    if has_token {
        let (tl, n) = ref_varint(&b[at..])?;
        at += n;
        if ((b.len() - at) as u64) < tl {
            return None;
        }
        token_at = at;
        token_len = tl as usize;
        at += token_len;
    }
    let (length, n) = ref_varint(&b[at..])?;
    at += n;
    let header_len = at;
    if ((b.len() - at) as u64) < length {
        return None;
    }
    let packet_len = at + length as usize;
    Some(RefNumbered {
        front,
        token_at,
        token_len,
        header_len,
        length,
        packet_len,
    })
}

/// Retry (17.2.5): <front>, Retry Token (..), Retry Integrity Tag (128).  No Length field: the packet
/// is the rest of the datagram.  17.2.5.2: "A client MUST discard a Retry packet with a zero-length
/// Retry Token field."
pub struct RefRetry {
    pub front: RefLongFront,
    pub token_at: usize,
    pub token_len: usize,
    pub tag_at: usize,
}

pub const RETRY_TAG_LEN: usize = 16;

pub fn ref_retry(b: &[u8]) -> Option<RefRetry> {
    let front = ref_long_front(b, V1_MAX_CID)?;
    let rest = b.len() - front.end;
    if rest < RETRY_TAG_LEN {
        return None;
    }
    let token_len = rest - RETRY_TAG_LEN;
    if token_len == 0 {
        return None;
    }
    let token_at = front.end;
    Some(RefRetry {
        front,
        token_at,
        token_len,
        tag_at: token_at + token_len,
    })
}

/// Version Negotiation (RFC 8999 section 6 / RFC 9000 17.2.1):
///   Header Form (1) = 1, Unused (7), Version (32) = 0, DCID Length (8), DCID (0..2040),
///   SCID Length (8), SCID (0..2040), Supported Version (32) ...
/// The list fills the rest of the datagram: whole 32-bit entries, at least one (a packet listing
/// no version cannot select one).  `max_cid` is 255 by the RFC; s2n-quic (a version 1 client, whose
/// own connection ids are <= 20 bytes and must be echoed, RFC 9000 6.2) uses 20.
pub struct RefVn {
    pub front: RefLongFront,
    pub versions_at: usize,
    pub versions_len: usize,
}

pub fn ref_version_negotiation(b: &[u8], max_cid: usize) -> Option<RefVn> {
    let front = ref_long_front(b, max_cid)?;
    if front.version != 0 {
        return None;
    }
    let versions_len = b.len() - front.end;
    if versions_len < 4 || versions_len % 4 != 0 {
        return None;
    }
    let versions_at = front.end;
    Some(RefVn {
        front,
        versions_at,
        versions_len,
    })
}

/// 1-RTT (17.3.1): Header Form (1) = 0, Fixed Bit (1) = 1, Spin Bit (1), Reserved (2), Key Phase (1),
/// Packet Number Length (2), Destination Connection ID (0..160), Packet Number, Payload.
/// The connection id length is not on the wire: it is what the receiver issued (`known_len`).
pub struct RefShort {
    pub spin: bool,
    pub dcid_at: usize,
    pub dcid_len: usize,
    pub header_len: usize,
}

pub fn ref_short(b: &[u8], known_len: Option<usize>) -> Option<RefShort> {
    if b.is_empty() {
        return None;
    }
    if b[0] & 0x80 != 0 {
        return None;
    }
    let dcid_len = known_len?;
    if dcid_len > V1_MAX_CID {
        return None;
    }
    if b.len() - 1 < dcid_len {
        return None;
    }
    Some(RefShort {
        spin: b[0] & 0x20 != 0,
        dcid_at: 1,
        dcid_len,
        header_len: 1 + dcid_len,
    })
}

/// RFC 9000 17.2 Table 5 + RFC 8999: what kind of packet a datagram starts with
#[derive(Clone, Copy, PartialEq, Eq, Debug)]
pub enum RefKind {
    Short,
    VersionNegotiation,
    Initial,
    ZeroRtt,
    Handshake,
    Retry,
}

pub fn ref_kind(b: &[u8]) -> Option<RefKind> {
    if b.is_empty() {
        return None;
    }
    if b[0] & 0x80 == 0 {
        // 17.3.1 Fixed Bit: "Packets containing a zero value for this bit are not valid packets in
        // this version and MUST be discarded."
        if b[0] & 0x40 == 0 {
            return None;
        }
        return Some(RefKind::Short);
    }
    if b.len() < 5 {
        return None;
    }
    let version = ((b[1] as u32) << 24) | ((b[2] as u32) << 16) | ((b[3] as u32) << 8) | b[4] as u32;
    if version == 0 {
        // 17.2.1: identified by the Version field alone; the other 7 bits of byte 0 are Unused
        return Some(RefKind::VersionNegotiation);
    }
    // 17.2 Fixed Bit
    if b[0] & 0x40 == 0 {
        return None;
    }
    Some(match (b[0] & 0x30) >> 4 {
        0 => RefKind::Initial,
        1 => RefKind::ZeroRtt,
        2 => RefKind::Handshake,
        _ => RefKind::Retry,
    })
}
