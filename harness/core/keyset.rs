// C15: KeySet one-step harnesses from an arbitrary key-set state, with an instrumented 1-RTT key
// whose generation is a field.  AEAD is modelled by "a packet sealed under generation X opens
// exactly with the key of generation X" (the packet carries X in its first payload bytes).
use super::*;
#[cfg(not(kani))]
use crate::kani;
use crate::{
    crypto::{packet_protection, scatter, EncryptedPayload, Key as CryptoKey, OneRttKey},
    packet::{
        number::PacketNumberSpace,
        short::Short,
    },
    time::Clock as _,
    varint::VarInt,
};
use s2n_codec::{DecoderBufferMut, EncoderBuffer};

/// instrumented key: remembers its generation
pub(super) struct GKey {
    pub generation: u16,
    pub conf: u64,
    pub integ: u64,
}

impl CryptoKey for GKey {
    fn decrypt(&self, _pn: u64, _h: &[u8], p: &mut [u8]) -> Result<(), packet_protection::Error> {
        // payload[0..2] = generation the packet was sealed under
        let sealed = u16::from_le_bytes([p[0], p[1]]);
        if sealed == self.generation {
            Ok(())
        } else {
            Err(packet_protection::Error::DECRYPT_ERROR)
        }
    }
    fn encrypt(&mut self, _pn: u64, _h: &[u8], _p: &mut scatter::Buffer) -> Result<(), packet_protection::Error> {
        Ok(())
    }
    fn tag_len(&self) -> usize {
        0
    }
    fn aead_confidentiality_limit(&self) -> u64 {
        self.conf
    }
    fn aead_integrity_limit(&self) -> u64 {
        self.integ
    }
    fn cipher_suite(&self) -> crate::crypto::tls::CipherSuite {
        crate::crypto::tls::CipherSuite::Unknown
    }
}

impl OneRttKey for GKey {
    fn derive_next_key(&self) -> Self {
        GKey {
            generation: self.generation + 1,
            conf: self.conf,
            integ: self.integ,
        }
    }
}

struct Pre {
    g: u16,
    phase: KeyPhase,
    in_progress: bool,
    conf: u64,
    integ: u64,
    window: u64,
    failures: u64,
}

/// arbitrary KeySet under its representation invariant:
///  * the active slot holds generation g and g's parity is the key phase
///  * the other slot holds g+1 (next key pre-derived) unless a key update is in progress
///    (derivation timer armed), in which case it still holds the previous generation g-1
///  * per-key counters <= confidentiality limit, failures < integrity limit
fn any_keyset() -> (KeySet<GKey>, Pre) {
    let conf: u64 = kani::any();
    let integ: u64 = kani::any();
    let window: u64 = kani::any();
    kani::assume(conf >= 1 && conf <= 1 << 62);
    kani::assume(integ >= 1 && integ <= 1 << 62);
    let g: u16 = kani::any();
    kani::assume(g < 1000);
    let phase = if g % 2 == 0 { KeyPhase::Zero } else { KeyPhase::One };
    let in_progress: bool = kani::any();
    kani::assume(!in_progress || g > 0);
    let other_gen = if in_progress { g - 1 } else { g + 1 };
    let e_active: u64 = kani::any();
    let e_other: u64 = kani::any();
    kani::assume(e_active <= conf && e_other <= conf);
    let mk = |generation: u16, enc: u64| limited::Key::<GKey>::verif_new(GKey { generation, conf, integ }, enc);
    let (k0, k1) = if g % 2 == 0 {
        (mk(g, e_active), mk(other_gen, e_other))
    } else {
        (mk(other_gen, e_other), mk(g, e_active))
    };
    let failures: u64 = kani::any();
    kani::assume(failures < integ);
    let mut timer = Timer::default();
    if in_progress {
        timer.set(crate::time::NoopClock.get_time() + core::time::Duration::from_secs(10));
    }
    (
        KeySet {
            key_phase: phase,
            key_derivation_timer: timer,
            packet_decryption_failures: failures,
            aead_integrity_limit: integ,
            generation: g,
            crypto: KeyArray([k0, k1]),
            limits: limited::Limits { key_update_window: window },
        },
        Pre { g, phase, in_progress, conf, integ, window, failures },
    )
}

fn send_generation(ks: &mut KeySet<GKey>) -> u16 {
    let phase = ks.encryption_phase();
    ks.crypto[phase].key_mut().generation
}

fn active_generation(ks: &mut KeySet<GKey>) -> u16 {
    let phase = ks.key_phase;
    ks.crypto[phase].key_mut().generation
}

// ---------------------------------------------------------------------------------------------
// O1: encrypt_packet — a key is never used beyond its confidentiality limit
#[cfg_attr(kani, kani::proof)]
#[cfg_attr(kani, kani::unwind(2))]
fn verif_keyset_encrypt_step() {
    let (mut ks, pre) = any_keyset();
    let before0 = ks.crypto.0[0].encrypted_packets();
    let before1 = ks.crypto.0[1].encrypted_packets();
    let active_needs_update = ks.active_key().needs_update(&ks.limits);
    let send_gen0 = send_generation(&mut ks);
    let mut storage = [0u8; 4];
    let buffer = EncoderBuffer::new(&mut storage);
    let mut used_gen: Option<u16> = None;
    let mut announced: Option<KeyPhase> = None;
    let res = ks.encrypt_packet(buffer, |buffer, key, phase| {
        used_gen = Some(key.generation);
        announced = Some(phase);
        let (payload, rest) = buffer.split_off();
        Ok((ProtectedPayload::new(0, payload), EncoderBuffer::new(rest)))
    });
    let after0 = ks.crypto.0[0].encrypted_packets();
    let after1 = ks.crypto.0[1].encrypted_packets();
    // a key is never used beyond its confidentiality limit
    assert!(after0 <= pre.conf && after1 <= pre.conf);
    // sending does not touch the receive-side failure count
    assert!(ks.packet_decryption_failures == pre.failures);
    match res {
        Ok(_) => {
            // exactly one counter advanced by one: the one of the key that was handed out
            assert!((after0 == before0 + 1 && after1 == before1) || (after1 == before1 + 1 && after0 == before0));
            assert!(used_gen == Some(send_gen0));
            // the Key Phase bit written into the header names the key that protected the packet
            // (RFC 9001 6: the peer selects its key by that bit)
            let slot = announced.unwrap();
            assert!(Some(ks.crypto[slot].key_mut().generation) == used_gen);
            // the update is initiated before the limit: inside the update window the NEXT key is used
            if active_needs_update && !pre.in_progress {
                assert!(send_gen0 == pre.g + 1);
            }
            if !active_needs_update {
                assert!(send_gen0 == pre.g);
            }
            kani::cover!(active_needs_update && !pre.in_progress, "update initiated: next key used");
            kani::cover!(!active_needs_update, "active key used");
        }
        Err(e) => {
            assert!(matches!(e, PacketEncodingError::AeadLimitReached(_)));
            // refuses to send rather than exceed: nothing counted, the closure never ran
            assert!(after0 == before0 && after1 == before1);
            assert!(used_gen.is_none());
            kani::cover!(true, "refused at the limit");
            core::mem::forget(e);
        }
    }
    // sender key generation never goes backwards across an encrypt (C15-O4), under the documented
    // production precondition that a freshly promoted key is not already inside its own update
    // window while the previous update is still in progress
    if !(pre.in_progress && active_needs_update) {
        let send_gen1 = send_generation(&mut ks);
        assert!(send_gen1 >= send_gen0 || pre.in_progress);
        assert!(send_gen0 >= pre.g);
    }
    let _ = (pre.phase, pre.window, pre.integ, pre.failures);
}

#[cfg(kani)]
static VERIF_LOC: &core::panic::Location<'static> = core::panic::Location::caller();
#[cfg(kani)]
struct StubLoc<'a>(core::marker::PhantomData<&'a ()>);
#[cfg(kani)]
impl<'a> StubLoc<'a> {
    fn caller() -> &'static core::panic::Location<'static> {
        VERIF_LOC
    }
}

struct Pkt {
    phase: KeyPhase,
    pn: u64,
    sealed_gen: u16,
    largest_acked: u64,
}

fn any_pkt() -> Pkt {
    let pn: u64 = kani::any();
    let la: u64 = kani::any();
    kani::assume(pn < (1 << 62) && la < (1 << 62));
    let phase = if kani::any() { KeyPhase::Zero } else { KeyPhase::One };
    Pkt { phase, pn, sealed_gen: kani::any(), largest_acked: la }
}

/// runs decrypt_packet on a short packet whose payload names the generation it was sealed under
/// Err(true) = the connection error AEAD_LIMIT_REACHED, Err(false) = any other failure
fn run_decrypt(ks: &mut KeySet<GKey>, pkt: &Pkt) -> Result<Option<u16>, bool> {
    let mut bytes = [0u8; 8];
    bytes[0] = 0x40;
    let sg = pkt.sealed_gen.to_le_bytes();
    // header = tag + 1 byte dcid + 1 byte pn; payload starts at 3
    bytes[3] = sg[0];
    bytes[4] = sg[1];
    let mut shadow = [0u8; 8];
    let orig = DecoderBufferMut::new(&mut shadow);
    let dcid = {
        let mut tmp = [0u8; 8];
        let b = DecoderBufferMut::new(&mut tmp);
        let b = b.skip(1).unwrap();
        let (r, _rest) = b.skip_into_range(1, &orig).unwrap();
        r
    };
    let pn_len = PacketNumberSpace::ApplicationData.new_packet_number_len(0);
    let packet = Short {
        spin_bit: Default::default(),
        key_phase: pkt.phase,
        destination_connection_id: dcid,
        packet_number: PacketNumberSpace::ApplicationData.new_packet_number(VarInt::new(pkt.pn).unwrap()),
        payload: EncryptedPayload::new(2, pn_len, &mut bytes),
    };
    let pto = crate::time::NoopClock.get_time() + core::time::Duration::from_secs(20);
    let largest_acked = PacketNumberSpace::ApplicationData.new_packet_number(VarInt::new(pkt.largest_acked).unwrap());
    match ks.decrypt_packet(packet, largest_acked, pto) {
        Ok((_, rotated)) => Ok(rotated),
        Err(ProcessingError::ConnectionError(crate::connection::Error::Transport { code, .. })) => {
            Err(code == transport::Error::AEAD_LIMIT_REACHED.code)
        }
        Err(_) => Err(false),
    }
}

fn is_aead_limit(e: &bool) -> bool {
    *e
}

/// what every decrypt step must satisfy, given whether the packet lies in the region of the
/// recorded/expected finding (`stale`: an old-generation packet arriving while the update that
/// retired its key is still in progress)
fn decrypt_step(stale_region: Option<bool>) {
    let (mut ks, pre) = any_keyset();
    let pkt = any_pkt();
    let stale = pre.in_progress && pkt.phase != pre.phase;
    if let Some(want) = stale_region {
        kani::assume(stale == want);
    }
    let send_gen0 = send_generation(&mut ks);
    let active_needs_update = ks.active_key().needs_update(&ks.limits);
    let e0 = ks.crypto.0[0].encrypted_packets();
    let e1 = ks.crypto.0[1].encrypted_packets();

    let res = run_decrypt(&mut ks, &pkt);

    // genuine packets of the generations the endpoint holds keys for
    let current = pkt.sealed_gen == pre.g && pkt.phase == pre.phase;
    let next = !pre.in_progress && pkt.sealed_gen == pre.g + 1 && pkt.phase != pre.phase;
    let previous = pre.in_progress && pkt.sealed_gen as u32 + 1 == pre.g as u32 && pkt.phase != pre.phase;

    match &res {
        Ok(rotated) => {
            // only a packet sealed under a key the endpoint holds can open
            assert!(current || next || previous);
            assert!(ks.packet_decryption_failures == pre.failures);
            if next {
                // peer-initiated (or answered) update: promote, arm the derivation timer
                assert!(*rotated == Some(pre.g + 1));
                assert!(ks.generation == pre.g + 1 && ks.key_phase == pkt.phase);
                assert!(ks.key_update_in_progress());
            }
            if current {
                assert!(rotated.is_none());
                assert!(ks.generation == pre.g && ks.key_phase == pre.phase);
                assert!(ks.key_update_in_progress() == pre.in_progress);
            }
            if previous {
                // a delayed packet under the previous keys is readable during the update period,
                // but must not be mistaken for a key update
                assert!(rotated.is_none());
                assert!(ks.generation == pre.g && ks.key_phase == pre.phase);
            }
            kani::cover!(next, "peer update accepted");
            kani::cover!(current, "current-phase packet");
            kani::cover!(previous, "delayed previous-generation packet");
        }
        Err(e) => {
            assert!(!(current || next || previous));
            // a failing open changes nothing but the failure counter
            let limit_hit = pre.failures + 1 >= pre.integ;
            assert!(is_aead_limit(e) == limit_hit);
            assert!(ks.packet_decryption_failures == pre.failures + 1);
            assert!(ks.generation == pre.g && ks.key_phase == pre.phase);
            assert!(ks.key_update_in_progress() == pre.in_progress);
            kani::cover!(limit_hit, "integrity limit reached");
            kani::cover!(!limit_hit, "forged packet counted");
        }
    }
    // encryption counters are untouched by decryption
    assert!(ks.crypto.0[0].encrypted_packets() == e0 && ks.crypto.0[1].encrypted_packets() == e1);
    // representation invariant preserved: the generation counter names the active key
    assert!(active_generation(&mut ks) == ks.generation);
    assert!((ks.generation % 2 == 0) == (ks.key_phase == KeyPhase::Zero));
    // C15-O4: the generation used for sending never goes backwards (same production precondition
    // as in the encrypt step, on the pre- and the post-state)
    let post_excluded = ks.key_update_in_progress() && ks.active_key().needs_update(&ks.limits);
    if !(pre.in_progress && active_needs_update) && !post_excluded {
        let send_gen1 = send_generation(&mut ks);
        assert!(send_gen1 >= send_gen0);
    }
}

// O2: decrypt_packet, all packets
#[cfg_attr(kani, kani::proof)]
#[cfg_attr(kani, kani::unwind(9))]
#[cfg_attr(kani, kani::stub(core::panic::Location::caller, StubLoc::caller))]
fn verif_keyset_decrypt_step() {
    decrypt_step(None);
}

// O3: on_timeout — derive the next key only after the timer expired
#[cfg_attr(kani, kani::proof)]
#[cfg_attr(kani, kani::unwind(2))]
fn verif_keyset_timeout_step() {
    let (mut ks, pre) = any_keyset();
    let send_gen0 = send_generation(&mut ks);
    let active_needs_update = ks.active_key().needs_update(&ks.limits);
    let e_active = ks.active_key().encrypted_packets();
    let other_phase = KeyPhase::next_phase(pre.phase);
    let other_gen0 = ks.crypto[other_phase].key_mut().generation;
    let other_enc0 = ks.crypto[other_phase].encrypted_packets();
    let dt: u16 = kani::any();
    let now = crate::time::NoopClock.get_time() + core::time::Duration::from_millis(dt as u64);
    ks.on_timeout(now);
    // timer was set to base + 10 s; Timer fires up to kGranularity (1 ms) early by design
    let fired = pre.in_progress && (dt as u64) + 1 > 10_000;
    if fired {
        assert!(!ks.key_update_in_progress());
        assert!(ks.crypto[other_phase].key_mut().generation == pre.g + 1);
        assert!(ks.crypto[other_phase].encrypted_packets() == 0);
        kani::cover!(true, "next key derived after expiry");
    } else {
        assert!(ks.key_update_in_progress() == pre.in_progress);
        assert!(ks.crypto[other_phase].key_mut().generation == other_gen0);
        assert!(ks.crypto[other_phase].encrypted_packets() == other_enc0);
        kani::cover!(pre.in_progress, "timer still pending");
    }
    assert!(ks.generation == pre.g && ks.key_phase == pre.phase);
    assert!(ks.active_key().encrypted_packets() == e_active);
    assert!(active_generation(&mut ks) == pre.g);
    // RFC 9001 6.6: authentication failures are counted over the lifetime of the connection,
    // across all keys: deriving new keys must not forget them
    assert!(ks.packet_decryption_failures == pre.failures);
    assert!(ks.aead_integrity_limit == pre.integ);
    if !(pre.in_progress && active_needs_update) {
        assert!(send_generation(&mut ks) >= send_gen0);
    }
}

// O5: two key sets exchanging packets: both sides keep reading each other across an update, with
// tiny limits. A = initiator (reaches its update window), B = responder.
#[cfg_attr(kani, kani::proof)]
#[cfg_attr(kani, kani::unwind(9))]
#[cfg_attr(kani, kani::stub(core::panic::Location::caller, StubLoc::caller))]
fn verif_keyset_two_endpoints_update() {
    let conf: u64 = 8;
    let integ: u64 = 4;
    let limits = limited::Limits { key_update_window: 6 };
    let mut a = KeySet::new(GKey { generation: 0, conf, integ }, limits);
    let mut b = KeySet::new(GKey { generation: 0, conf, integ }, limits);
    let mut pn_a: u64 = 0;
    let mut last_gen_a: u16 = 0;
    // A sends 4 packets; B receives each in order; after A's 3rd packet the update window is hit
    let mut i = 0;
    while i < 4 {
        let mut storage = [0u8; 4];
        let buffer = EncoderBuffer::new(&mut storage);
        let mut used: Option<(u16, KeyPhase)> = None;
        let res = a.encrypt_packet(buffer, |buffer, key, phase| {
            used = Some((key.generation, phase));
            let (payload, rest) = buffer.split_off();
            Ok((ProtectedPayload::new(0, payload), EncoderBuffer::new(rest)))
        });
        assert!(res.is_ok());
        core::mem::forget(res);
        let (gen, phase) = used.unwrap();
        // higher packet numbers never use an older generation
        assert!(gen >= last_gen_a);
        last_gen_a = gen;
        let pkt = Pkt { phase, pn: pn_a, sealed_gen: gen, largest_acked: if pn_a > 0 { pn_a - 1 } else { 0 } };
        let r = run_decrypt(&mut b, &pkt);
        assert!(r.is_ok());
        pn_a += 1;
        i += 1;
    }
    // the update happened and B followed it
    assert!(last_gen_a == 1);
    assert!(b.generation == 1);
    // B answers with its new key; A promotes
    let mut storage = [0u8; 4];
    let buffer = EncoderBuffer::new(&mut storage);
    let mut used: Option<(u16, KeyPhase)> = None;
    let res = b.encrypt_packet(buffer, |buffer, key, phase| {
        used = Some((key.generation, phase));
        let (payload, rest) = buffer.split_off();
        Ok((ProtectedPayload::new(0, payload), EncoderBuffer::new(rest)))
    });
    assert!(res.is_ok());
    core::mem::forget(res);
    let (gen, phase) = used.unwrap();
    assert!(gen == 1);
    let r = run_decrypt(&mut a, &Pkt { phase, pn: 0, sealed_gen: gen, largest_acked: 0 });
    assert!(r == Ok(Some(1)));
    assert!(a.generation == 1 && a.key_update_in_progress());
    kani::cover!(true, "both endpoints at generation 1");
}

// C06: a packet that no held key authenticates (forged, bit-flipped, replayed under a discarded
// generation) is only ever DROPPED: the verdict is a decrypt error - whatever its unauthenticated
// header bits, in particular the reserved bits, say - or, exactly at the integrity limit,
// AEAD_LIMIT_REACHED; never PROTOCOL_VIOLATION or any other connection error. An authentic packet
// with reserved bits set is a PROTOCOL_VIOLATION (RFC 9000 17.3.1: checked AFTER removing packet
// protection).
#[cfg_attr(kani, kani::proof)]
#[cfg_attr(kani, kani::unwind(10))]
#[cfg_attr(kani, kani::stub(core::panic::Location::caller, StubLoc::caller))]
fn verif_keyset_forged_packet_only_dropped() {
    let (mut ks, pre) = any_keyset();
    let pkt = any_pkt();
    let reserved: u8 = kani::any();
    kani::assume(reserved < 4);
    let mut bytes = [0u8; 8];
    // short header: 0 1 S R R K P P - both reserved bits symbolic
    bytes[0] = 0x40 | (reserved << 3);
    let sg = pkt.sealed_gen.to_le_bytes();
    bytes[3] = sg[0];
    bytes[4] = sg[1];
    let mut shadow = [0u8; 8];
    let orig = DecoderBufferMut::new(&mut shadow);
    let dcid = {
        let mut tmp = [0u8; 8];
        let b = DecoderBufferMut::new(&mut tmp);
        let b = b.skip(1).unwrap();
        let (r, _rest) = b.skip_into_range(1, &orig).unwrap();
        r
    };
    let pn_len = PacketNumberSpace::ApplicationData.new_packet_number_len(0);
    let packet = Short {
        spin_bit: Default::default(),
        key_phase: pkt.phase,
        destination_connection_id: dcid,
        packet_number: PacketNumberSpace::ApplicationData.new_packet_number(VarInt::new(pkt.pn).unwrap()),
        payload: EncryptedPayload::new(2, pn_len, &mut bytes),
    };
    let pto = crate::time::NoopClock.get_time() + core::time::Duration::from_secs(20);
    let largest_acked = PacketNumberSpace::ApplicationData.new_packet_number(VarInt::new(pkt.largest_acked).unwrap());
    // generations held: g in the active slot, g+1 (or g-1 during an update) in the other one
    let other_gen = if pre.in_progress { pre.g - 1 } else { pre.g + 1 };
    let forged = pkt.sealed_gen != pre.g && pkt.sealed_gen != other_gen;
    let res = ks.decrypt_packet(packet, largest_acked, pto);
    if forged {
        match res {
            Ok(_) => panic!("a packet sealed under no held key was accepted"),
            Err(ProcessingError::DecryptError) => {
                kani::cover!(reserved != 0, "forged packet with reserved bits set is only dropped");
            }
            Err(ProcessingError::ConnectionError(crate::connection::Error::Transport { code, .. })) => {
                // the only connection error a forged packet may cause: the integrity limit itself
                assert!(code == transport::Error::AEAD_LIMIT_REACHED.code);
                assert!(pre.failures + 1 >= pre.integ);
                kani::cover!(true, "integrity limit reached by a forged packet");
            }
            Err(_) => panic!("forged packet caused a connection error"),
        }
    } else if let Err(ProcessingError::ConnectionError(crate::connection::Error::Transport { code, .. })) = res {
        if code == transport::Error::PROTOCOL_VIOLATION.code {
            // only an authentic packet can be blamed for its reserved bits
            assert!(reserved != 0);
            kani::cover!(true, "authentic packet with reserved bits rejected");
        }
    }
}

// ---- generated by tools/fixup.py: native replay entry ----
#[cfg(not(kani))]
#[test]
fn verif_replay() {
    kani::replay(&[
        ("verif_keyset_encrypt_step", verif_keyset_encrypt_step),
        ("verif_keyset_decrypt_step", verif_keyset_decrypt_step),
        ("verif_keyset_timeout_step", verif_keyset_timeout_step),
        ("verif_keyset_two_endpoints_update", verif_keyset_two_endpoints_update),
        ("verif_keyset_forged_packet_only_dropped", verif_keyset_forged_packet_only_dropped),
    ]);
}
