// C05-O4 (Retry packet, RFC 9000 17.2.5; Retry pseudo-packet, RFC 9001 5.8): the real decoder /
// encoders vs the independent reference parser in packet_ref.rs.
//   Retry Packet {
//     Header Form (1) = 1, Fixed Bit (1) = 1, Long Packet Type (2) = 3, Unused (4), Version (32),
//     Destination Connection ID Length (8), Destination Connection ID (0..160),
//     Source Connection ID Length (8), Source Connection ID (0..160), Retry Token (..),
//     Retry Integrity Tag (128),
//   }
//   Retry Pseudo-Packet {
//     ODCID Length (8), Original Destination Connection ID (0..160), <the Retry packet without
//     its Retry Integrity Tag>
//   }
use super::*;
#[cfg(not(kani))]
use crate::kani;
use s2n_codec::{DecoderBufferMut, Encoder, EncoderBuffer, EncoderValue};

#[path = "/verif/harness/core/packet_ref.rs"]
mod packet_ref;
use packet_ref::*;

fn peeked_version(b: &[u8]) -> u32 {
    ((b[1] as u32) << 24) | ((b[2] as u32) << 16) | ((b[3] as u32) << 8) | b[4] as u32
}

/// returns whether the packet was accepted (by both)
fn diff<const N: usize>(orig: [u8; N], len: usize) -> bool {
    let mut bytes = orig;
    let version = peeked_version(&orig);
    let res = Retry::decode(orig[0], version, DecoderBufferMut::new(&mut bytes[..len]));
    match (res, ref_retry(&orig[..len])) {
        (Ok((packet, rest)), Some(r)) => {
            kani::cover!(r.token_len == 1, "one-byte token (smallest valid)");
            kani::cover!(r.front.dcid_len > 0 && r.front.scid_len > 0 && r.token_len > 1, "both connection ids and a longer token");
            // the Unused bits are kept (they are covered by the integrity tag)
            assert!(packet.tag == orig[0]);
            assert!(packet.version == r.front.version);
            assert!(packet.destination_connection_id.len() == r.front.dcid_len);
            let k: usize = kani::any();
            if k < r.front.dcid_len {
                assert!(packet.destination_connection_id[k] == orig[r.front.dcid_at + k]);
            }
            assert!(packet.source_connection_id.len() == r.front.scid_len);
            if k < r.front.scid_len {
                assert!(packet.source_connection_id[k] == orig[r.front.scid_at + k]);
            }
            assert!(packet.retry_token.len() == r.token_len);
            if k < r.token_len {
                assert!(packet.retry_token[k] == orig[r.token_at + k]);
            }
            let t: usize = kani::any();
            if t < RETRY_TAG_LEN {
                assert!(packet.retry_integrity_tag[t] == orig[r.tag_at + t]);
            }
            // no Length field: a Retry packet takes the rest of the datagram
            assert!(r.tag_at + RETRY_TAG_LEN == len);
            assert!(rest.is_empty());
            true
        }
        (Err(_), None) => {
            kani::cover!(len == 23 && orig[5] == 0 && orig[6] == 0, "rejected: zero-length Retry Token");
            kani::cover!(len == 12 && orig[5] == 0 && orig[6] == 0, "rejected: shorter than an integrity tag");
            false
        }
        (Ok(_), None) => panic!("decoder accepted a packet the RFC reference rejects"),
        (Err(_), Some(_)) => panic!("decoder rejected a well-formed packet"),
    }
}

// every byte string of 5..=40 bytes whose first byte says Retry
const N: usize = 40;

#[cfg_attr(kani, kani::proof)]
#[cfg_attr(kani, kani::unwind(9))]
fn verif_packet_retry_decode_diff() {
    let orig: [u8; N] = kani::any();
    let len: usize = kani::any();
    kani::assume(len >= 5 && len <= N);
    kani::assume(orig[0] >> 4 == 0b1111);
    diff(orig, len);
}

// room for two 21-byte connection ids, a one-byte token and the tag: 5 + 1 + 21 + 1 + 21 + 1 + 16 = 66
const N_CID: usize = 66;

#[cfg_attr(kani, kani::proof)]
#[cfg_attr(kani, kani::unwind(9))]
#[allow(unused_variables)]
fn verif_packet_retry_cid_bound() {
    let orig: [u8; N_CID] = kani::any();
    let len: usize = kani::any();
    kani::assume(len >= 5 && len <= N_CID);
    kani::assume(orig[0] >> 4 == 0b1111);
    let accepted = diff(orig, len);
    let dl = orig[5] as usize;
    if dl <= 21 {
        let sl = orig[6 + dl] as usize;
        kani::cover!(accepted && dl == 20 && sl == 20, "20/20-byte connection ids accepted");
        kani::cover!(!accepted && len == N_CID && dl == 21 && sl == 0, "rejected: 21-byte destination connection id in a complete packet");
        kani::cover!(!accepted && len == N_CID && dl == 0 && sl == 21, "rejected: 21-byte source connection id in a complete packet");
    }
}

const CID: usize = 20;
const TOKEN: usize = 4;
const CAP: usize = 1 + 4 + 1 + CID + 1 + CID + TOKEN + RETRY_TAG_LEN;

// encode -> reference parse -> decode, and the pseudo-packet the integrity tag is computed over
#[cfg_attr(kani, kani::proof)]
#[cfg_attr(kani, kani::unwind(22))]
fn verif_packet_retry_roundtrip() {
    let tag: u8 = kani::any();
    kani::assume(tag >> 4 == 0b1111);
    let version: u32 = kani::any();
    let dcid_bytes: [u8; CID] = kani::any();
    let scid_bytes: [u8; CID] = kani::any();
    let odcid_bytes: [u8; CID] = kani::any();
    let token_bytes: [u8; TOKEN] = kani::any();
    let integrity: IntegrityTag = kani::any();
    let dl: usize = kani::any();
    let sl: usize = kani::any();
    let ol: usize = kani::any();
    let tl: usize = kani::any();
    kani::assume(dl <= CID && sl <= CID && ol <= CID && tl >= 1 && tl <= TOKEN);
    let packet = Retry {
        tag,
        version,
        destination_connection_id: &dcid_bytes[..dl],
        source_connection_id: &scid_bytes[..sl],
        retry_token: &token_bytes[..tl],
        retry_integrity_tag: &integrity,
    };
    let mut storage = [0u8; CAP];
    let size = packet.encoding_size();
    let written = {
        let mut enc = EncoderBuffer::new(&mut storage);
        enc.encode(&packet);
        enc.len()
    };
    kani::cover!(written == CAP, "largest packet");
    kani::cover!(written == 7 + 1 + RETRY_TAG_LEN, "smallest packet");
    assert!(size == written);
    assert!(storage[0] == tag);
    let orig = storage;
    let k: usize = kani::any();
    let t: usize = kani::any();
    match ref_retry(&orig[..written]) {
        Some(r) => {
            assert!(r.front.version == version);
            assert!(r.front.dcid_len == dl && r.front.scid_len == sl && r.token_len == tl);
            if k < dl {
                assert!(orig[r.front.dcid_at + k] == dcid_bytes[k]);
            }
            if k < sl {
                assert!(orig[r.front.scid_at + k] == scid_bytes[k]);
            }
            if k < tl {
                assert!(orig[r.token_at + k] == token_bytes[k]);
            }
            if t < RETRY_TAG_LEN {
                assert!(orig[r.tag_at + t] == integrity[t]);
            }
        }
        None => panic!("encoder output is not a well-formed Retry packet"),
    }
    // RFC 9001 5.8: pseudo-packet = ODCID Length, ODCID, then the Retry packet minus its tag
    {
        let pseudo = packet.pseudo_packet(&odcid_bytes[..ol]);
        let mut pstorage = [0u8; 1 + CID + CAP];
        let psize = pseudo.encoding_size();
        let pwritten = {
            let mut enc = EncoderBuffer::new(&mut pstorage);
            enc.encode(&pseudo);
            enc.len()
        };
        assert!(psize == pwritten);
        assert!(pwritten == 1 + ol + written - RETRY_TAG_LEN);
        assert!(pstorage[0] as usize == ol);
        if k < ol {
            assert!(pstorage[1 + k] == odcid_bytes[k]);
        }
        let j: usize = kani::any();
        if j < written - RETRY_TAG_LEN {
            assert!(pstorage[1 + ol + j] == orig[j]);
        }
    }
    let (back, rest) = Retry::decode(orig[0], peeked_version(&orig), DecoderBufferMut::new(&mut storage[..written])).unwrap();
    assert!(rest.is_empty());
    assert!(back.tag == tag && back.version == version);
    assert!(back.destination_connection_id.len() == dl);
    assert!(back.source_connection_id.len() == sl);
    assert!(back.retry_token.len() == tl);
    if k < dl {
        assert!(back.destination_connection_id[k] == dcid_bytes[k]);
    }
    if k < sl {
        assert!(back.source_connection_id[k] == scid_bytes[k]);
    }
    if k < tl {
        assert!(back.retry_token[k] == token_bytes[k]);
    }
    if t < RETRY_TAG_LEN {
        assert!(back.retry_integrity_tag[t] == integrity[t]);
    }
}

// 17.2.5.1: a Retry answers an Initial with the client's Source Connection ID as its Destination
// Connection ID, the server's fresh id as Source Connection ID, and the client's version
const N_INITIAL: usize = 24;

#[cfg_attr(kani, kani::proof)]
#[cfg_attr(kani, kani::unwind(9))]
fn verif_packet_retry_from_initial() {
    let orig: [u8; N_INITIAL] = kani::any();
    let len: usize = kani::any();
    kani::assume(len >= 5 && len <= N_INITIAL);
    kani::assume(orig[0] >> 4 == 0b1100);
    let mut bytes = orig;
    let local: [u8; 8] = kani::any();
    if let Ok((initial, _rest)) = ProtectedInitial::decode(orig[0], peeked_version(&orig), DecoderBufferMut::new(&mut bytes[..len])) {
        let retry = Retry::from_initial(&initial, &local);
        kani::cover!(retry.destination_connection_id.len() == 5, "client chose a 5-byte source connection id");
        assert!(retry.tag >> 4 == 0b1111);
        assert!(retry.version == peeked_version(&orig));
        // the reference tells where the client's Source Connection ID is
        match ref_numbered(&orig[..len], true, INVARIANT_MAX_CID) {
            Some(r) => {
                assert!(retry.destination_connection_id.len() == r.front.scid_len);
                let k: usize = kani::any();
                if k < r.front.scid_len {
                    assert!(retry.destination_connection_id[k] == orig[r.front.scid_at + k]);
                }
            }
            None => panic!("decoder accepted an Initial the reference rejects"),
        }
        assert!(retry.source_connection_id.len() == 8);
        let k: usize = kani::any();
        if k < 8 {
            assert!(retry.source_connection_id[k] == local[k]);
        }
        assert!(retry.retry_token.is_empty());
    }
}

// ---- generated by tools/fixup.py: native replay entry ----
#[cfg(not(kani))]
#[test]
fn verif_replay() {
    kani::replay(&[
        ("verif_packet_retry_decode_diff", verif_packet_retry_decode_diff),
        ("verif_packet_retry_cid_bound", verif_packet_retry_cid_bound),
        ("verif_packet_retry_roundtrip", verif_packet_retry_roundtrip),
        ("verif_packet_retry_from_initial", verif_packet_retry_from_initial),
    ]);
}
