// C16-O5: interval-set removal planner (`Removal::scan`, heap free, fully symbolic) + container
// half (`Removal::apply`, concrete shapes).
use super::*;
#[cfg(not(kani))]
use crate::kani;
use crate::interval_set::Interval;

const N: usize = 3;

fn any_state() -> ([Interval<u8>; N], usize) {
    let n: usize = kani::any();
    kani::assume(n <= N);
    let s: [u8; N] = kani::any();
    let e: [u8; N] = kani::any();
    let arr = [
        Interval { start: s[0], end: e[0] },
        Interval { start: s[1], end: e[1] },
        Interval { start: s[2], end: e[2] },
    ];
    kani::assume(s[0] <= e[0] && s[1] <= e[1] && s[2] <= e[2]);
    if n >= 2 {
        kani::assume((e[0] as u16) + 1 < s[1] as u16);
    }
    if n >= 3 {
        kani::assume((e[1] as u16) + 1 < s[2] as u16);
    }
    (arr, n)
}

fn contains(arr: &[Interval<u8>; N], n: usize, x: u8) -> bool {
    (n >= 1 && arr[0].start <= x && x <= arr[0].end)
        || (n >= 2 && arr[1].start <= x && x <= arr[1].end)
        || (n >= 3 && arr[2].start <= x && x <= arr[2].end)
}

// The plan computed by scan() (in-place edits + replace_range + optional pushed interval), applied
// to the array model, is exactly the set difference and keeps the representation invariant.
#[cfg_attr(kani, kani::proof)]
#[cfg_attr(kani, kani::unwind(5))]
fn verif_iset_remove_plan() {
    let (old, n) = any_state();
    let mut arr = [old[0], old[1], old[2]];
    let a: u8 = kani::any();
    let b: u8 = kani::any();
    kani::assume(a <= b);
    let range = Interval { start: a, end: b };
    let can_push: bool = kani::any();
    #[allow(clippy::reversed_empty_ranges)]
    let mut rem = Removal {
        replace_range: usize::MAX..0,
        push_range: None,
        can_push_range: can_push,
    };
    let r = rem.scan(arr[..n].iter_mut().enumerate().skip(0), &range);
    let x: u8 = kani::any();
    let expect = contains(&old, n, x) && !(a <= x && x <= b);

    let rr = rem.replace_range.clone();
    let mut removed_lo = 0usize;
    let mut removed_hi = 0usize;
    let mut pushed: Option<Interval<u8>> = None;
    let mut failed = false;
    if r.is_none() {
        if let Some(iv) = rem.push_range {
            if can_push {
                pushed = Some(iv);
            } else {
                failed = true;
            }
        } else if rr.start <= rr.end {
            assert!(rr.end <= n);
            removed_lo = rr.start;
            removed_hi = rr.end;
        }
    } else {
        assert!(r.unwrap() <= n);
    }
    if failed {
        // LimitExceeded: the set must be untouched
        let mut i = 0;
        while i < N {
            assert!(arr[i].start == old[i].start && arr[i].end == old[i].end);
            i += 1;
        }
        kani::cover!(true, "split refused at the interval limit");
    } else {
        let mut got = false;
        let mut prev_end: Option<u8> = None;
        let mut i = 0;
        while i < N {
            if i < n && !(removed_lo <= i && i < removed_hi) {
                let iv = arr[i];
                // still a valid, ordered, non-adjacent interval
                assert!(iv.start <= iv.end);
                if let Some(p) = prev_end {
                    assert!((p as u16) + 1 < iv.start as u16);
                }
                prev_end = Some(iv.end);
                if iv.start <= x && x <= iv.end {
                    got = true;
                }
                // a pushed interval (split) goes right behind the interval it was cut from
                if let Some(p) = pushed {
                    if i + 1 == rr.start {
                        assert!(p.start <= p.end);
                        assert!((iv.end as u16) + 1 < p.start as u16);
                        prev_end = Some(p.end);
                    }
                }
            }
            i += 1;
        }
        if let Some(p) = pushed {
            if p.start <= x && x <= p.end {
                got = true;
            }
            kani::cover!(true, "interval split in two");
        }
        assert!(got == expect);
        kani::cover!(removed_hi - removed_lo == 2, "two intervals removed entirely");
        kani::cover!(r.is_some(), "trimmed at one end only");
        kani::cover!(r.is_none() && pushed.is_none() && removed_lo == removed_hi && n == 3, "nothing to remove");
    }
}

// apply(): concrete shapes
#[cfg_attr(kani, kani::proof)]
#[cfg_attr(kani, kani::unwind(6))]
fn verif_iset_remove_apply_shapes() {
    let vals: [u8; 8] = kani::any();
    let pv: (u8, u8) = kani::any();
    let can_push: bool = kani::any();
    let mut n = 0;
    while n <= 3 {
        let mut index = 0;
        while index <= n {
            // (1) removal of `count` whole intervals starting at index
            let mut count = 0;
            while index + count <= n {
                let mut dq: VecDeque<Interval<u8>> = VecDeque::with_capacity(8);
                let mut i = 0;
                while i < n {
                    dq.push_back(Interval { start: vals[2 * i], end: vals[2 * i + 1] });
                    i += 1;
                }
                let rem = Removal { replace_range: index..(index + count), push_range: None, can_push_range: can_push };
                let r = rem.apply(&mut dq);
                assert!(r == Ok(index));
                assert!(dq.len() == n - count);
                let mut j = 0;
                while j < n - count {
                    let src = if j < index { j } else { j + count };
                    assert!(dq[j].start == vals[2 * src] && dq[j].end == vals[2 * src + 1]);
                    j += 1;
                }
                core::mem::forget(dq);
                count += 1;
            }
            // (2) a split: push the right-hand remainder at `index`
            {
                let mut dq: VecDeque<Interval<u8>> = VecDeque::with_capacity(8);
                let mut i = 0;
                while i < n {
                    dq.push_back(Interval { start: vals[2 * i], end: vals[2 * i + 1] });
                    i += 1;
                }
                let rem = Removal {
                    replace_range: index..index,
                    push_range: Some(Interval { start: pv.0, end: pv.1 }),
                    can_push_range: can_push,
                };
                let r = rem.apply(&mut dq);
                if can_push {
                    assert!(r == Ok(index));
                    assert!(dq.len() == n + 1);
                    assert!(dq[index].start == pv.0 && dq[index].end == pv.1);
                    let mut j = 0;
                    while j < n + 1 {
                        if j != index {
                            let src = if j < index { j } else { j - 1 };
                            assert!(dq[j].start == vals[2 * src] && dq[j].end == vals[2 * src + 1]);
                        }
                        j += 1;
                    }
                } else {
                    assert!(r == Err(IntervalSetError::LimitExceeded));
                    assert!(dq.len() == n);
                }
                core::mem::forget(dq);
            }
            index += 1;
        }
        n += 1;
    }
    kani::cover!(can_push, "split allowed");
    kani::cover!(!can_push, "split refused");
}

// ---- generated by tools/fixup.py: native replay entry ----
#[cfg(not(kani))]
#[test]
fn verif_replay() {
    kani::replay(&[
        ("verif_iset_remove_plan", verif_iset_remove_plan),
        ("verif_iset_remove_apply_shapes", verif_iset_remove_apply_shapes),
    ]);
}
