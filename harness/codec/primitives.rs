// C05-O2: s2n-codec primitives — every read of DecoderBuffer is bounds checked and big endian;
// what EncoderBuffer writes, DecoderBuffer reads back; the length estimator agrees with the encoder.
use crate::{u24, u48, DecoderBuffer, DecoderBufferMut, Encoder, EncoderBuffer, EncoderLenEstimator, EncoderValue};
#[cfg(not(kani))]
use crate::kani;

const N: usize = 17;

fn be(bytes: &[u8], n: usize) -> u128 {
    let mut v: u128 = 0;
    let mut i = 0;
    while i < n {
        v = (v << 8) | bytes[i] as u128;
        i += 1;
    }
    v
}

macro_rules! int_case {
    ($buf:expr, $bytes:expr, $len:expr, $ty:ty, $size:expr, $conv:expr) => {{
        match $buf.decode::<$ty>() {
            Ok((v, rest)) => {
                assert!($len >= $size);
                let got: u128 = $conv(v);
                assert!(got == be(&$bytes, $size));
                assert!(rest.len() == $len - $size);
            }
            Err(_) => assert!($len < $size),
        }
    }};
}

// integers of every width: Ok exactly when enough bytes remain, value big endian, exact consumption
#[cfg_attr(kani, kani::proof)]
#[cfg_attr(kani, kani::unwind(18))]
fn verif_decoder_integers() {
    let bytes: [u8; N] = kani::any();
    let len: usize = kani::any();
    kani::assume(len <= N);
    let buf = DecoderBuffer::new(&bytes[..len]);
    int_case!(buf, bytes, len, u8, 1, |v: u8| v as u128);
    int_case!(buf, bytes, len, u16, 2, |v: u16| v as u128);
    int_case!(buf, bytes, len, u24, 3, |v: u24| u32::from(v) as u128);
    int_case!(buf, bytes, len, u32, 4, |v: u32| v as u128);
    int_case!(buf, bytes, len, u48, 6, |v: u48| u64::from(v) as u128);
    int_case!(buf, bytes, len, u64, 8, |v: u64| v as u128);
    int_case!(buf, bytes, len, u128, 16, |v: u128| v);
    kani::cover!(len == 16, "exactly one u128");
    kani::cover!(len == 2, "too short for u24");
}

// slices, skips, peeks and length-prefixed slices
#[cfg_attr(kani, kani::proof)]
#[cfg_attr(kani, kani::unwind(18))]
fn verif_decoder_slices() {
    let bytes: [u8; N] = kani::any();
    let len: usize = kani::any();
    kani::assume(len <= N);
    let n: usize = kani::any();
    kani::assume(n <= 40);
    let k: usize = kani::any();
    kani::assume(k < N);
    let buf = DecoderBuffer::new(&bytes[..len]);
    match buf.decode_slice(n) {
        Ok((s, rest)) => {
            assert!(n <= len && s.len() == n && rest.len() == len - n);
            if k < n {
                assert!(s.into_less_safe_slice()[k] == bytes[k]);
            }
            if k < len - n {
                assert!(rest.into_less_safe_slice()[k] == bytes[n + k]);
            }
        }
        Err(_) => assert!(n > len),
    }
    match buf.skip(n) {
        Ok(rest) => assert!(n <= len && rest.len() == len - n),
        Err(_) => assert!(n > len),
    }
    // peeking never consumes
    assert!(buf.peek().len() == len);
    match buf.peek_byte(n) {
        Ok(b) => assert!(n < len && b == bytes[n]),
        Err(_) => assert!(n >= len),
    }
    // u8 length prefix
    match buf.decode_slice_with_len_prefix::<u8>() {
        Ok((s, rest)) => {
            assert!(len >= 1);
            let l = bytes[0] as usize;
            assert!(1 + l <= len && s.len() == l && rest.len() == len - 1 - l);
            if k < l {
                assert!(s.into_less_safe_slice()[k] == bytes[1 + k]);
            }
            kani::cover!(l == 3, "3-byte prefixed slice");
        }
        Err(_) => assert!(len < 1 || 1 + bytes[0] as usize > len),
    }
    // u16 length prefix
    match buf.skip_with_len_prefix::<u16>() {
        Ok(rest) => {
            assert!(len >= 2);
            let l = ((bytes[0] as usize) << 8) | bytes[1] as usize;
            assert!(2 + l <= len && rest.len() == len - 2 - l);
        }
        Err(_) => assert!(len < 2 || 2 + (((bytes[0] as usize) << 8) | bytes[1] as usize) > len),
    }
    kani::cover!(n == len && len > 0, "slice takes everything");
}

// encoder -> decoder round trip; estimator agreement
#[cfg_attr(kani, kani::proof)]
#[cfg_attr(kani, kani::unwind(26))]
fn verif_encoder_roundtrip() {
    let a: u8 = kani::any();
    let b: u16 = kani::any();
    let c: u32 = kani::any();
    let d: u64 = kani::any();
    let payload: [u8; 4] = kani::any();
    let plen: usize = kani::any();
    kani::assume(plen <= 4);
    let mut est = EncoderLenEstimator::new(usize::MAX);
    est.encode(&a);
    est.encode(&b);
    est.encode(&c);
    est.encode(&d);
    est.encode_with_len_prefix::<u8, _>(&&payload[..plen]);
    let total = 1 + 2 + 4 + 8 + 1 + plen;
    assert!(est.len() == total);
    assert!(a.encoding_size() + b.encoding_size() + c.encoding_size() + d.encoding_size() == 15);
    let mut storage = [0xa5u8; 24];
    let written = {
        let mut enc = EncoderBuffer::new(&mut storage);
        assert!(enc.capacity() == 24 && enc.remaining_capacity() == 24);
        enc.encode(&a);
        enc.encode(&b);
        enc.encode(&c);
        enc.encode(&d);
        enc.encode_with_len_prefix::<u8, _>(&&payload[..plen]);
        assert!(enc.remaining_capacity() == 24 - enc.len());
        enc.len()
    };
    assert!(written == total);
    kani::cover!(plen == 4, "4-byte prefixed payload");
    kani::cover!(plen == 0, "empty prefixed payload");
    {
        let buf = DecoderBufferMut::new(&mut storage[..written]);
        let (ra, buf) = buf.decode::<u8>().unwrap();
        let (rb, buf) = buf.decode::<u16>().unwrap();
        let (rc, buf) = buf.decode::<u32>().unwrap();
        let (rd, buf) = buf.decode::<u64>().unwrap();
        let (rp, buf) = buf.decode_slice_with_len_prefix::<u8>().unwrap();
        assert!(ra == a && rb == b && rc == c && rd == d);
        assert!(rp.len() == plen && buf.is_empty());
        let k: usize = kani::any();
        if k < plen {
            assert!(rp.into_less_safe_slice()[k] == payload[k]);
        }
    }
    // nothing written beyond the announced length
    let j: usize = kani::any();
    kani::assume(j >= written && j < 24);
    assert!(storage[j] == 0xa5);
}

// ---- native replay entry ----
#[cfg(not(kani))]
#[test]
fn verif_replay() {
    kani::replay(&[
        ("verif_decoder_integers", verif_decoder_integers),
        ("verif_decoder_slices", verif_decoder_slices),
        ("verif_encoder_roundtrip", verif_encoder_roundtrip),
    ]);
}
