// C18-O3: stream / datagram / control packet header decoders are total on arbitrary bytes and
// agree, field by field and slice by slice, with an independently written parser of the dc wire
// format; tag-byte classification.
//
// Real code: {datagram,control,stream}::decoder::Packet::decode (validator `()`, 16-byte tag),
// packet::Tag::decode, DecoderValue for Credentials / credentials::Id / WireVersion / stream::Id /
// VarInt / u16 / u32. In Kani's debug build every `s2n_quic_core::assume!` inside the decoders is a
// checked assertion, so the harness also proves the decoders' unsafe length assumptions.
use super::*;
#[cfg(not(kani))]
use crate::kani;
use s2n_codec::DecoderBuffer;

const TAG_LEN: usize = 16;
const IN: usize = 48;

/// reference cursor over b[..len]
struct Cur<'a> {
    b: &'a [u8; IN],
    len: usize,
    at: usize,
}

impl<'a> Cur<'a> {
    fn u8(&mut self) -> Option<u8> {
        if self.at >= self.len {
            return None;
        }
        let v = self.b[self.at];
        self.at += 1;
        Some(v)
    }
    fn be(&mut self, n: usize) -> Option<u64> {
        if self.len - self.at < n {
            return None;
        }
        let mut v = 0u64;
        let mut i = 0;
        while i < n {
            v = (v << 8) | self.b[self.at + i] as u64;
            i += 1;
        }
        self.at += n;
        Some(v)
    }
    /// RFC 9000 section 16
    fn varint(&mut self) -> Option<u64> {
        if self.at >= self.len {
            return None;
        }
        let n = 1usize << (self.b[self.at] >> 6);
        let v = self.be(n)?;
        Some(v & ((1u64 << (8 * n - 2)) - 1))
    }
    fn skip(&mut self, n: u64) -> Option<()> {
        if ((self.len - self.at) as u64) < n {
            return None;
        }
        self.at += n as usize;
        Some(())
    }
    /// credential id (16 raw bytes, compared by the caller) + key id + wire version 0
    fn credentials_and_version(&mut self) -> Option<u64> {
        self.skip(16)?;
        let key_id = self.varint()?;
        if self.u8()? != 0 {
            return None;
        }
        Some(key_id)
    }
}

fn same(slice: &[u8], base: *const u8, off: usize, len: usize) -> bool {
    slice.len() == len && (len == 0 || slice.as_ptr() == base.wrapping_add(off))
}

// ---------------------------------------------------------------- datagram
struct RefDatagram {
    key_id: u64,
    port: u16,
    pn: u64,
    next: Option<u64>,
    fixed: usize,
    app: usize,
    ctl: usize,
    payload: usize,
}

fn ref_datagram(b: &[u8; IN], len: usize) -> Option<RefDatagram> {
    let mut c = Cur { b, len, at: 0 };
    let t = c.u8()?;
    if t & 0xf0 != 0b0100_0000 {
        return None;
    }
    let (ack, connected, has_app) = (t & 8 != 0, t & 4 != 0, t & 2 != 0);
    let key_id = c.credentials_and_version()?;
    let port = c.be(2)? as u16;
    let pn = if connected || ack { c.varint()? } else { 0 };
    let payload = c.varint()?;
    let mut next = None;
    let mut ctl = 0;
    if ack {
        next = Some(c.varint()?);
        ctl = c.varint()?;
    }
    let app = if has_app { c.varint()? } else { 0 };
    let fixed = c.at;
    c.skip(app)?;
    c.skip(ctl)?;
    c.skip(payload)?;
    c.skip(TAG_LEN as u64)?;
    Some(RefDatagram {
        key_id,
        port,
        pn,
        next,
        fixed,
        app: app as usize,
        ctl: ctl as usize,
        payload: payload as usize,
    })
}

#[cfg_attr(kani, kani::proof)]
#[cfg_attr(kani, kani::unwind(17))]
fn verif_datagram_decode_total() {
    let mut bytes: [u8; IN] = kani::any();
    let copy = bytes;
    let len: usize = kani::any();
    kani::assume(len <= IN);
    let base = bytes.as_ptr();
    let reference = ref_datagram(&copy, len);
    match datagram::decoder::Packet::decode(DecoderBufferMut::new(&mut bytes[..len]), (), TAG_LEN) {
        Err(_) => {
            assert!(reference.is_none(), "well-formed datagram rejected");
            kani::cover!(len == IN, "malformed 48-byte input rejected");
        }
        Ok((p, rest)) => {
            let r = match reference {
                Some(r) => r,
                None => panic!("malformed datagram accepted"),
            };
            let total = r.fixed + r.app + r.ctl;
            assert!(u8::from(p.tag()) == copy[0]);
            let j: usize = kani::any();
            kani::assume(j < 16);
            assert!(p.credentials().id[j] == copy[1 + j]);
            assert!(p.credentials().key_id.as_u64() == r.key_id);
            assert!(p.wire_version() == WireVersion::ZERO);
            assert!(p.source_control_port() == r.port);
            assert!(p.packet_number().as_u64() == r.pn);
            assert!(p.crypto_nonce() == r.pn);
            assert!(p.next_expected_control_packet().map(|v| v.as_u64()) == r.next);
            assert!(same(p.header(), base, 0, total), "authenticated header");
            assert!(same(p.application_header(), base, r.fixed, r.app));
            assert!(same(p.control_data(), base, r.fixed + r.app, r.ctl));
            assert!(same(p.payload(), base, total, r.payload));
            assert!(same(p.auth_tag(), base, total + r.payload, TAG_LEN));
            assert!(p.wire_len() == total + r.payload + TAG_LEN);
            assert!(rest.len() == len - p.wire_len());
            kani::cover!(r.next.is_some() && r.ctl > 0, "ack-eliciting datagram with control data");
            kani::cover!(r.app > 0 && r.payload > 0, "application header and payload");
            kani::cover!(r.next.is_none() && r.pn == 0 && copy[0] & 4 == 0, "unconnected datagram");
            kani::cover!(rest.len() > 0, "trailing bytes left for the next packet");
        }
    }
}

// ---------------------------------------------------------------- control
struct RefControl {
    key_id: u64,
    stream_id: Option<u64>,
    source_queue_id: Option<u64>,
    pn: u64,
    fixed: usize,
    app: usize,
    ctl: usize,
}

fn ref_control(b: &[u8; IN], len: usize) -> Option<RefControl> {
    let mut c = Cur { b, len, at: 0 };
    let t = c.u8()?;
    if t & 0xf0 != 0b0101_0000 {
        return None;
    }
    let (has_queue, is_stream, has_app) = (t & 8 != 0, t & 4 != 0, t & 2 != 0);
    let key_id = c.credentials_and_version()?;
    let stream_id = if is_stream { Some(c.varint()?) } else { None };
    let source_queue_id = if has_queue { Some(c.varint()?) } else { None };
    let pn = c.varint()?;
    let ctl = c.varint()?;
    let app = if has_app { c.varint()? } else { 0 };
    let fixed = c.at;
    c.skip(app)?;
    c.skip(ctl)?;
    c.skip(TAG_LEN as u64)?;
    Some(RefControl {
        key_id,
        stream_id,
        source_queue_id,
        pn,
        fixed,
        app: app as usize,
        ctl: ctl as usize,
    })
}

fn stream_id_matches(id: &stream::Id, wire: u64) -> bool {
    id.queue_id().as_u64() == wire >> 2 && id.is_reliable == (wire & 2 != 0) && id.is_bidirectional == (wire & 1 != 0)
}

#[cfg_attr(kani, kani::proof)]
#[cfg_attr(kani, kani::unwind(17))]
fn verif_control_decode_total() {
    let mut bytes: [u8; IN] = kani::any();
    let copy = bytes;
    let len: usize = kani::any();
    kani::assume(len <= IN);
    let base = bytes.as_ptr();
    let reference = ref_control(&copy, len);
    match control::decoder::Packet::decode(DecoderBufferMut::new(&mut bytes[..len]), (), TAG_LEN) {
        Err(_) => {
            assert!(reference.is_none(), "well-formed control packet rejected");
            kani::cover!(len == IN, "malformed 48-byte input rejected");
        }
        Ok((p, rest)) => {
            let r = match reference {
                Some(r) => r,
                None => panic!("malformed control packet accepted"),
            };
            let total = r.fixed + r.app + r.ctl;
            assert!(u8::from(p.tag()) == copy[0]);
            let j: usize = kani::any();
            kani::assume(j < 16);
            assert!(p.credentials().id[j] == copy[1 + j]);
            assert!(p.credentials().key_id.as_u64() == r.key_id);
            assert!(p.wire_version() == WireVersion::ZERO);
            match (p.stream_id(), r.stream_id) {
                (Some(id), Some(w)) => assert!(stream_id_matches(id, w)),
                (None, None) => {}
                _ => panic!("stream id presence"),
            }
            assert!(p.source_queue_id().map(|v| v.as_u64()) == r.source_queue_id);
            assert!(p.packet_number().as_u64() == r.pn);
            assert!(same(p.header(), base, 0, total), "authenticated header");
            assert!(same(p.application_header(), base, r.fixed, r.app));
            assert!(same(p.control_data(), base, r.fixed + r.app, r.ctl));
            assert!(same(p.auth_tag(), base, total, TAG_LEN));
            assert!(p.total_len() == total + TAG_LEN);
            assert!(rest.len() == len - p.total_len());
            kani::cover!(r.stream_id.is_some() && r.source_queue_id.is_some(), "stream control packet with queue id");
            kani::cover!(r.app > 0 && r.ctl > 0, "application header and control data");
            kani::cover!(rest.len() > 0, "trailing bytes");
        }
    }
}

// ---------------------------------------------------------------- stream
struct RefStream {
    key_id: u64,
    stream_id: u64,
    source_queue_id: Option<u64>,
    original_pn: u64,
    pn: u64,
    next: u64,
    offset: u64,
    final_offset: Option<u64>,
    fixed: usize,
    app: usize,
    ctl: usize,
    payload: usize,
}

fn ref_stream(b: &[u8; IN], len: usize) -> Option<RefStream> {
    let mut c = Cur { b, len, at: 0 };
    let t = c.u8()?;
    if t & 0b1100_0000 != 0 {
        return None;
    }
    let has_queue = t & 0b10_0000 != 0;
    let has_ctl = t & 0b1000 != 0;
    let has_final = t & 0b100 != 0;
    let has_app = t & 0b10 != 0;
    let key_id = c.credentials_and_version()?;
    c.be(2)?; // unused (former source control port)
    let stream_id = c.varint()?;
    let source_queue_id = if has_queue { Some(c.varint()?) } else { None };
    let original_pn = c.varint()?;
    let pn = if stream_id & 2 != 0 {
        // reliable streams carry a 32-bit relative retransmission offset
        let rel = c.be(4)?;
        let pn = original_pn + rel;
        if pn > (1 << 62) - 1 {
            return None;
        }
        pn
    } else {
        original_pn
    };
    let next = c.varint()?;
    let offset = c.varint()?;
    let final_offset = if has_final { Some(c.varint()?) } else { None };
    let ctl = if has_ctl { c.varint()? } else { 0 };
    let payload = c.varint()?;
    let app = if has_app { c.varint()? } else { 0 };
    let fixed = c.at;
    c.skip(app)?;
    c.skip(ctl)?;
    c.skip(payload)?;
    c.skip(TAG_LEN as u64)?;
    Some(RefStream {
        key_id,
        stream_id,
        source_queue_id,
        original_pn,
        pn,
        next,
        offset,
        final_offset,
        fixed,
        app: app as usize,
        ctl: ctl as usize,
        payload: payload as usize,
    })
}

#[cfg_attr(kani, kani::proof)]
#[cfg_attr(kani, kani::unwind(17))]
fn verif_stream_decode_total() {
    let mut bytes: [u8; IN] = kani::any();
    let copy = bytes;
    let len: usize = kani::any();
    kani::assume(len <= IN);
    let base = bytes.as_ptr();
    let reference = ref_stream(&copy, len);
    match stream::decoder::Packet::decode(DecoderBufferMut::new(&mut bytes[..len]), (), TAG_LEN) {
        Err(_) => {
            assert!(reference.is_none(), "well-formed stream packet rejected");
            kani::cover!(len == IN, "malformed 48-byte input rejected");
        }
        Ok((p, rest)) => {
            let r = match reference {
                Some(r) => r,
                None => panic!("malformed stream packet accepted"),
            };
            let total = r.fixed + r.app + r.ctl;
            assert!(u8::from(p.tag()) == copy[0]);
            let j: usize = kani::any();
            kani::assume(j < 16);
            assert!(p.credentials().id[j] == copy[1 + j]);
            assert!(p.credentials().key_id.as_u64() == r.key_id);
            assert!(p.wire_version() == WireVersion::ZERO);
            assert!(stream_id_matches(p.stream_id(), r.stream_id));
            assert!(p.source_queue_id().map(|v| v.as_u64()) == r.source_queue_id);
            assert!(p.packet_number().as_u64() == r.pn);
            assert!(p.is_retransmission() == (r.pn != r.original_pn));
            assert!(p.next_expected_control_packet().as_u64() == r.next);
            assert!(p.stream_offset().as_u64() == r.offset);
            assert!(p.final_offset().map(|v| v.as_u64()) == r.final_offset);
            assert!(same(p.header(), base, 0, total), "authenticated header");
            assert!(same(p.application_header(), base, r.fixed, r.app));
            assert!(same(p.control_data(), base, r.fixed + r.app, r.ctl));
            assert!(same(p.payload(), base, total, r.payload));
            assert!(same(p.auth_tag(), base, total + r.payload, TAG_LEN));
            assert!(p.total_len() == total + r.payload + TAG_LEN);
            assert!(rest.len() == len - p.total_len());
            kani::cover!(r.pn != r.original_pn, "retransmitted reliable stream packet");
            kani::cover!(r.final_offset.is_some() && r.payload > 0, "final offset and payload");
            kani::cover!(r.ctl > 0 && r.source_queue_id.is_some(), "control data and source queue id");
            kani::cover!(r.stream_id & 2 == 0 && r.app > 0, "unreliable stream with application header");
        }
    }
}

// ---------------------------------------------------------------- tag byte classification
#[cfg_attr(kani, kani::proof)]
#[cfg_attr(kani, kani::unwind(3))]
fn verif_tag_classification() {
    let b: [u8; 2] = kani::any();
    let len: usize = kani::any();
    kani::assume(len <= 2);
    match DecoderBuffer::new(&b[..len]).decode::<Tag>() {
        Err(_) => {
            // empty input, long-header bit, or the reserved 0b011x_xxxx values
            let t = b[0];
            assert!(len == 0 || t & 0x80 != 0 || (t & 0xe0 == 0x60 && !matches!(t & !0b100, 0x60 | 0x61 | 0x62)));
            kani::cover!(len > 0 && b[0] == 0b0110_0011, "reserved secret-control tag rejected");
        }
        Ok((tag, rest)) => {
            assert!(len >= 1 && rest.len() == len - 1);
            let t = b[0];
            assert!(u8::from(tag) == t);
            match tag {
                Tag::Stream(_) => assert!(t & 0xc0 == 0),
                Tag::Datagram(_) => assert!(t & 0xf0 == 0x40),
                Tag::Control(_) => assert!(t & 0xf0 == 0x50),
                Tag::UnknownPathSecret(x) => assert!(t & !0b100 == 0x60 && x.has_queue_id() == (t & 4 != 0)),
                Tag::StaleKey(x) => assert!(t & !0b100 == 0x61 && x.has_queue_id() == (t & 4 != 0)),
                Tag::ReplayDetected(x) => assert!(t & !0b100 == 0x62 && x.has_queue_id() == (t & 4 != 0)),
            }
            kani::cover!(matches!(tag, Tag::StaleKey(_)), "stale key tag");
            kani::cover!(matches!(tag, Tag::Stream(_)), "stream tag");
        }
    }
}

// ---------------------------------------------------------------- encode -> decode round trips
use crate::{
    credentials::{Credentials, Id as CredentialId},
    crypto::seal,
};
use core::cell::Cell;
use s2n_codec::EncoderBuffer;
use s2n_quic_core::packet::KeyPhase;

const MAXV: u64 = (1 << 62) - 1;
const OUT: usize = 128;

fn any_varint() -> VarInt {
    let v: u64 = kani::any();
    kani::assume(v <= MAXV);
    VarInt::new(v).unwrap()
}

fn any_opt_varint() -> Option<VarInt> {
    if kani::any() {
        Some(any_varint())
    } else {
        None
    }
}

fn any_credentials() -> Credentials {
    let id: [u8; 16] = kani::any();
    Credentials {
        id: CredentialId::from(id),
        key_id: any_varint(),
    }
}

fn any_stream_id() -> stream::Id {
    let q: u64 = kani::any();
    kani::assume(q < (1 << 60));
    let mut id = stream::Id::normal(VarInt::new(q).unwrap()).unwrap();
    id.is_reliable = kani::any();
    id.is_bidirectional = kani::any();
    id
}

/// signer / "cipher" stub: identity on the payload, solver-chosen tag; records what it was given
struct StubSeal {
    tag: [u8; TAG_LEN],
    phase: KeyPhase,
    header_ptr: Cell<*const u8>,
    header_len: Cell<usize>,
    nonce: Cell<u64>,
}

impl StubSeal {
    fn new(tag: [u8; TAG_LEN], phase: KeyPhase) -> Self {
        Self {
            tag,
            phase,
            header_ptr: Cell::new(core::ptr::null()),
            header_len: Cell::new(usize::MAX),
            nonce: Cell::new(u64::MAX),
        }
    }
}

impl seal::Control for StubSeal {
    fn tag_len(&self) -> usize {
        TAG_LEN
    }
    fn sign(&self, header: &[u8], tag: &mut [u8]) {
        assert!(tag.len() == TAG_LEN);
        self.header_ptr.set(header.as_ptr());
        self.header_len.set(header.len());
        tag.copy_from_slice(&self.tag);
    }
}

impl seal::control::Stream for StubSeal {
    fn retransmission_tag(&self, _o: u64, _r: u64, _tag_out: &mut [u8]) {}
}

impl seal::Application for StubSeal {
    fn key_phase(&self) -> KeyPhase {
        self.phase
    }
    fn tag_len(&self) -> usize {
        TAG_LEN
    }
    fn encrypt(&self, packet_number: u64, header: &[u8], extra_payload: Option<&[u8]>, payload_and_tag: &mut [u8]) {
        self.header_ptr.set(header.as_ptr());
        self.header_len.set(header.len());
        self.nonce.set(packet_number);
        let extra = extra_payload.unwrap_or(&[]);
        let n = payload_and_tag.len();
        assert!(n >= TAG_LEN + extra.len(), "sealer contract: room for the extra chunk and the tag");
        let inline = n - TAG_LEN - extra.len();
        payload_and_tag[inline..n - TAG_LEN].copy_from_slice(extra);
        payload_and_tag[n - TAG_LEN..].copy_from_slice(&self.tag);
    }
}

// control packet: every header field, <= 2 bytes of application header, <= 4 bytes of control data
#[cfg_attr(kani, kani::proof)]
#[cfg_attr(kani, kani::unwind(17))]
fn verif_control_roundtrip() {
    let source_queue_id = any_opt_varint();
    let stream_id = if kani::any() { Some(any_stream_id()) } else { None };
    let pn = any_varint();
    let credentials = any_credentials();
    let app: [u8; 2] = kani::any();
    let app_len: usize = kani::any();
    kani::assume(app_len <= 2);
    let ctl: [u8; 4] = kani::any();
    let ctl_len: usize = kani::any();
    kani::assume(ctl_len <= 4);
    let tag: [u8; TAG_LEN] = kani::any();
    let sealer = StubSeal::new(tag, KeyPhase::Zero);

    let mut buf = [0u8; OUT];
    let base = buf.as_ptr();
    let len = control::encoder::encode(
        EncoderBuffer::new(&mut buf),
        source_queue_id,
        stream_id,
        pn,
        VarInt::new(app_len as u64).unwrap(),
        &mut &app[..app_len],
        VarInt::new(ctl_len as u64).unwrap(),
        &&ctl[..ctl_len],
        &sealer,
        &credentials,
    );
    assert!(len <= OUT);
    // the signer saw everything before the tag
    assert!(sealer.header_ptr.get() == base && sealer.header_len.get() == len - TAG_LEN);

    let (p, rest) = match control::decoder::Packet::decode(DecoderBufferMut::new(&mut buf[..len]), (), TAG_LEN) {
        Ok(v) => v,
        Err(_) => panic!("own encoding rejected"),
    };
    assert!(rest.is_empty());
    assert!(*p.credentials() == credentials);
    assert!(p.source_queue_id() == source_queue_id);
    assert!(p.stream_id().copied() == stream_id);
    assert!(p.packet_number() == pn);
    assert!(p.tag().has_application_header() == (app_len > 0));
    assert!(p.application_header().len() == app_len);
    assert!(p.control_data().len() == ctl_len);
    let i: usize = kani::any();
    if i < app_len {
        assert!(p.application_header()[i] == app[i]);
    }
    if i < ctl_len {
        assert!(p.control_data()[i] == ctl[i]);
    }
    kani::assume(i < TAG_LEN);
    assert!(p.auth_tag()[i] == tag[i]);
    assert!(same(p.header(), base, 0, len - TAG_LEN));
    kani::cover!(app_len == 2 && ctl_len == 4 && stream_id.is_some(), "all optional parts present");
    kani::cover!(app_len == 0 && ctl_len == 0 && source_queue_id.is_none(), "bare control packet");
}

// datagram: every header field, <= 2 bytes of application header, <= 4 bytes of payload
#[cfg_attr(kani, kani::proof)]
#[cfg_attr(kani, kani::unwind(17))]
fn verif_datagram_roundtrip() {
    let port: u16 = kani::any();
    let pn = any_opt_varint();
    let next = any_opt_varint();
    // encoder precondition (FIXME in the encoder): an ack-eliciting datagram needs a packet number
    kani::assume(next.is_none() || pn.is_some());
    let credentials = any_credentials();
    let app: [u8; 2] = kani::any();
    let app_len: usize = kani::any();
    kani::assume(app_len <= 2);
    let ctl: [u8; 3] = kani::any();
    let ctl_len: usize = kani::any();
    kani::assume(ctl_len <= 3);
    let payload: [u8; 4] = kani::any();
    let payload_len: usize = kani::any();
    kani::assume(payload_len <= 4);
    let tag: [u8; TAG_LEN] = kani::any();
    let phase = if kani::any() { KeyPhase::One } else { KeyPhase::Zero };
    let sealer = StubSeal::new(tag, phase);

    let mut buf = [0u8; OUT];
    let base = buf.as_ptr();
    let len = datagram::encoder::encode(
        EncoderBuffer::new(&mut buf),
        port,
        pn,
        next,
        VarInt::new(app_len as u64).unwrap(),
        &mut &app[..app_len],
        &&ctl[..ctl_len],
        VarInt::new(payload_len as u64).unwrap(),
        &mut &payload[..payload_len],
        &sealer,
        &credentials,
    );
    assert!(len <= OUT);
    let hl = len - TAG_LEN - payload_len;
    // the AEAD's associated data is everything before the payload; nonce = packet number (0 if none)
    assert!(sealer.header_ptr.get() == base && sealer.header_len.get() == hl);
    assert!(sealer.nonce.get() == pn.map_or(0, |v| v.as_u64()));

    let (p, rest) = match datagram::decoder::Packet::decode(DecoderBufferMut::new(&mut buf[..len]), (), TAG_LEN) {
        Ok(v) => v,
        Err(_) => panic!("own encoding rejected"),
    };
    assert!(rest.is_empty());
    assert!(*p.credentials() == credentials);
    assert!(p.source_control_port() == port);
    assert!(p.packet_number() == pn.unwrap_or(VarInt::ZERO));
    assert!(p.crypto_nonce() == sealer.nonce.get(), "receiver derives the sender's nonce");
    assert!(p.next_expected_control_packet() == next);
    assert!(p.tag().key_phase() == phase);
    assert!(p.tag().is_connected() == pn.is_some());
    assert!(p.tag().ack_eliciting() == next.is_some());
    assert!(same(p.header(), base, 0, hl), "decoder's AAD == encoder's AAD");
    assert!(p.application_header().len() == app_len);
    assert!(p.control_data().len() == if next.is_some() { ctl_len } else { 0 });
    assert!(p.payload().len() == payload_len);
    let i: usize = kani::any();
    if i < app_len {
        assert!(p.application_header()[i] == app[i]);
    }
    if next.is_some() && i < ctl_len {
        assert!(p.control_data()[i] == ctl[i]);
    }
    if i < payload_len {
        assert!(p.payload()[i] == payload[i]);
    }
    kani::assume(i < TAG_LEN);
    assert!(p.auth_tag()[i] == tag[i]);
    kani::cover!(next.is_some() && ctl_len == 3 && app_len == 2 && payload_len == 4, "all optional parts present");
    kani::cover!(pn.is_none() && payload_len > 0, "unconnected datagram with payload");
}

// ---- generated by tools/fixup.py: native replay entry ----
#[cfg(not(kani))]
#[test]
fn verif_replay() {
    kani::replay(&[
        ("verif_datagram_decode_total", verif_datagram_decode_total),
        ("verif_control_decode_total", verif_control_decode_total),
        ("verif_stream_decode_total", verif_stream_decode_total),
        ("verif_tag_classification", verif_tag_classification),
        ("verif_control_roundtrip", verif_control_roundtrip),
        ("verif_datagram_roundtrip", verif_datagram_roundtrip),
    ]);
}
