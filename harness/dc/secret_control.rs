// C18-O1: secret-control packets (UnknownPathSecret, StaleKey, ReplayDetected) round-trip, the
// decoders are total on arbitrary bytes and agree with an independently written parser of the wire
// format, and a packet is only handed out by `authenticate` if its 16-byte tag verifies over exactly
// the bytes that precede it.
//
// Real code: {StaleKey,ReplayDetected,UnknownPathSecret}::encode, encoder::finish,
// secret_control::Packet::decode, <type>::Packet::{decode,authenticate}, decoder::{header_len,header}.
// Crypto is a stub: the signer writes a solver-chosen tag, the opener records the (header, tag)
// slices it is asked to verify and accepts iff the tag equals the expected one.
//
// Wire format (transcribed from the dc packet specification comments in the encoders):
//   tag byte 0b0110_00tt | 0b100 if a queue id follows   (tt: 00 unknown path secret, 01 stale key,
//   10 replay detected), 16-byte credential id, 1-byte wire version (must be 0),
//   [queue id varint], [key id varint: stale key / replay detected only], 16-byte auth tag
use super::*;
#[cfg(not(kani))]
use crate::kani;
use crate::crypto::open;
use core::cell::Cell;

const MAXV: u64 = (1 << 62) - 1;
const BUF: usize = MAX_PACKET_SIZE; // 64

// ---------------------------------------------------------------- stub crypto
struct StubSealer {
    tag: [u8; TAG_LEN],
    signed_header_len: Cell<usize>,
    signed_header_ptr: Cell<*const u8>,
}

impl StubSealer {
    fn new(tag: [u8; TAG_LEN]) -> Self {
        Self {
            tag,
            signed_header_len: Cell::new(usize::MAX),
            signed_header_ptr: Cell::new(core::ptr::null()),
        }
    }
}

impl seal::Control for StubSealer {
    fn tag_len(&self) -> usize {
        TAG_LEN
    }
    fn sign(&self, header: &[u8], tag: &mut [u8]) {
        assert!(tag.len() == TAG_LEN);
        self.signed_header_len.set(header.len());
        self.signed_header_ptr.set(header.as_ptr());
        tag.copy_from_slice(&self.tag);
    }
}
impl seal::control::Secret for StubSealer {}

struct StubOpener {
    expect: [u8; TAG_LEN],
    calls: Cell<usize>,
    header_ptr: Cell<*const u8>,
    header_len: Cell<usize>,
    tag_ptr: Cell<*const u8>,
    tag_len: Cell<usize>,
}

impl StubOpener {
    fn new(expect: [u8; TAG_LEN]) -> Self {
        Self {
            expect,
            calls: Cell::new(0),
            header_ptr: Cell::new(core::ptr::null()),
            header_len: Cell::new(usize::MAX),
            tag_ptr: Cell::new(core::ptr::null()),
            tag_len: Cell::new(usize::MAX),
        }
    }
    /// the opener was asked exactly once, about base[..hl] as header and base[hl..hl+16] as tag
    fn saw(&self, base: *const u8, hl: usize) -> bool {
        self.calls.get() == 1
            && self.header_ptr.get() == base
            && self.header_len.get() == hl
            && self.tag_ptr.get() == base.wrapping_add(hl)
            && self.tag_len.get() == TAG_LEN
    }
}

impl open::Control for StubOpener {
    fn tag_len(&self) -> usize {
        TAG_LEN
    }
    fn verify(&self, header: &[u8], tag: &[u8]) -> open::Result {
        self.calls.set(self.calls.get() + 1);
        self.header_ptr.set(header.as_ptr());
        self.header_len.set(header.len());
        self.tag_ptr.set(tag.as_ptr());
        self.tag_len.set(tag.len());
        if tag.len() != TAG_LEN {
            return Err(open::Error::InvalidTag);
        }
        let mut i = 0;
        while i < TAG_LEN {
            if tag[i] != self.expect[i] {
                return Err(open::Error::InvalidTag);
            }
            i += 1;
        }
        Ok(())
    }
}
impl open::control::Secret for StubOpener {}

/// functional stand-in for aws-lc's CRYPTO_memcmp wrapper (FFI, no CBMC model)
#[allow(dead_code)]
fn stub_verify_slices_are_equal(a: &[u8], b: &[u8]) -> Result<(), aws_lc_rs::error::Unspecified> {
    if a.len() != b.len() {
        return Err(aws_lc_rs::error::Unspecified);
    }
    let mut i = 0;
    while i < a.len() {
        if a[i] != b[i] {
            return Err(aws_lc_rs::error::Unspecified);
        }
        i += 1;
    }
    Ok(())
}

// ---------------------------------------------------------------- reference wire format
fn ref_varint_len(v: u64) -> usize {
    if v < (1 << 6) {
        1
    } else if v < (1 << 14) {
        2
    } else if v < (1 << 30) {
        4
    } else {
        8
    }
}

/// RFC 9000 section 16 reader at `at`
fn ref_varint(b: &[u8], len: usize, at: usize) -> Option<(u64, usize)> {
    if at >= len {
        return None;
    }
    let n = 1usize << (b[at] >> 6);
    if len - at < n {
        return None;
    }
    let mut v = (b[at] & 0x3f) as u64;
    let mut i = 1;
    while i < n {
        v = (v << 8) | b[at + i] as u64;
        i += 1;
    }
    Some((v, n))
}

/// byte `i` of the shortest RFC 9000 varint encoding of `v`
fn ref_varint_byte(v: u64, i: usize) -> u8 {
    let n = ref_varint_len(v);
    let prefix: u8 = match n {
        1 => 0b00,
        2 => 0b01,
        4 => 0b10,
        _ => 0b11,
    };
    let b = (v >> (8 * (n - 1 - i))) as u8;
    if i == 0 {
        (prefix << 6) | (b & 0x3f)
    } else {
        b
    }
}

#[derive(Clone, Copy, PartialEq, Eq)]
enum Kind {
    Unknown,
    Stale,
    Replay,
}

struct RefPacket {
    kind: Kind,
    queue_id: Option<u64>,
    key_id: u64, // 0 for Kind::Unknown
    header_len: usize,
}

/// independent parser of the first packet in b[..len]; the credential id is b[1..17]
fn ref_parse(b: &[u8], len: usize) -> Option<RefPacket> {
    if len < 1 {
        return None;
    }
    let kind = match b[0] & !0b100 {
        0b0110_0000 => Kind::Unknown,
        0b0110_0001 => Kind::Stale,
        0b0110_0010 => Kind::Replay,
        _ => return None,
    };
    let has_queue = b[0] & 0b100 != 0;
    // credential id + wire version
    if len < 18 {
        return None;
    }
    if b[17] != 0 {
        return None;
    }
    let mut at = 18;
    let mut queue_id = None;
    if has_queue {
        let (v, n) = ref_varint(b, len, at)?;
        queue_id = Some(v);
        at += n;
    }
    let mut key_id = 0;
    if kind != Kind::Unknown {
        let (v, n) = ref_varint(b, len, at)?;
        key_id = v;
        at += n;
    }
    if len - at < TAG_LEN {
        return None;
    }
    Some(RefPacket {
        kind,
        queue_id,
        key_id,
        header_len: at,
    })
}

fn any_varint() -> VarInt {
    let v: u64 = kani::any();
    kani::assume(v <= MAXV);
    VarInt::new(v).unwrap()
}

fn any_queue_id() -> Option<VarInt> {
    if kani::any() {
        Some(any_varint())
    } else {
        None
    }
}

fn any_id() -> credentials::Id {
    let id: [u8; 16] = kani::any();
    credentials::Id::from(id)
}

/// expected wire byte `i` (i < header length) of a packet with the given fields
fn ref_header_byte(
    kind: Kind,
    id: &credentials::Id,
    queue_id: Option<VarInt>,
    key_id: Option<VarInt>,
    i: usize,
) -> u8 {
    if i == 0 {
        let t = match kind {
            Kind::Unknown => 0b0110_0000,
            Kind::Stale => 0b0110_0001,
            Kind::Replay => 0b0110_0010,
        };
        return if queue_id.is_some() { t | 0b100 } else { t };
    }
    if i < 17 {
        return id[i - 1];
    }
    if i == 17 {
        return 0;
    }
    let mut at = 18;
    if let Some(q) = queue_id {
        let n = ref_varint_len(q.as_u64());
        if i < at + n {
            return ref_varint_byte(q.as_u64(), i - at);
        }
        at += n;
    }
    let k = key_id.unwrap();
    ref_varint_byte(k.as_u64(), i - at)
}

// ---------------------------------------------------------------- round trips
macro_rules! keyed_roundtrip {
    ($name:ident, $ty:ident, $variant:ident, $kind:expr, $field:ident) => {
        #[cfg_attr(kani, kani::proof)]
        #[cfg_attr(kani, kani::unwind(18))]
        fn $name() {
            let value = $ty {
                credential_id: any_id(),
                wire_version: WireVersion::ZERO,
                queue_id: any_queue_id(),
                $field: any_varint(),
            };
            let tag: [u8; TAG_LEN] = kani::any();
            let hl = 18
                + match value.queue_id {
                    Some(q) => ref_varint_len(q.as_u64()),
                    None => 0,
                }
                + ref_varint_len(value.$field.as_u64());
            // any buffer the packet fits in, up to the size every caller uses
            let cap: usize = kani::any();
            kani::assume(cap >= hl + TAG_LEN && cap <= BUF);
            let mut buf = [0xa5u8; BUF];
            let base = buf.as_ptr();
            let sealer = StubSealer::new(tag);
            let len = value.encode(EncoderBuffer::new(&mut buf[..cap]), &sealer);

            assert!(len == hl + TAG_LEN, "announced length");
            assert!(len <= MAX_PACKET_SIZE);
            // the signer was given exactly the bytes before the tag
            assert!(sealer.signed_header_len.get() == hl && sealer.signed_header_ptr.get() == base);
            // wire image: one arbitrary byte
            let i: usize = kani::any();
            kani::assume(i < BUF);
            if i < hl {
                let want = ref_header_byte($kind, &value.credential_id, value.queue_id, Some(value.$field), i);
                assert!(buf[i] == want, "header byte");
            } else if i < len {
                assert!(buf[i] == tag[i - hl], "tag byte");
            } else {
                assert!(buf[i] == 0xa5, "byte after the packet touched");
            }

            // a different tag anywhere must be refused: corrupt one tag byte (or not)
            let corrupt: bool = kani::any();
            let at: usize = kani::any();
            let x: u8 = kani::any();
            kani::assume(at < TAG_LEN && x != 0);
            if corrupt {
                buf[hl + at] ^= x;
            }

            let (pkt, rest) = match Packet::decode(DecoderBufferMut::new(&mut buf[..len])) {
                Ok(v) => v,
                Err(_) => panic!("own encoding rejected"),
            };
            assert!(rest.is_empty());
            assert!(*pkt.credential_id() == value.credential_id);
            assert!(pkt.queue_id() == value.queue_id);
            let pkt = match pkt {
                Packet::$variant(p) => p,
                _ => panic!("decoded as the wrong packet type"),
            };
            let opener = StubOpener::new(tag);
            let out = pkt.authenticate(&opener);
            assert!(opener.saw(base, hl), "authenticated bytes != everything before the tag");
            if corrupt {
                assert!(out.is_none(), "packet with a wrong tag was handed out");
            } else {
                match out {
                    Some(v) => assert!(*v == value, "round trip changed a field"),
                    None => panic!("authentic packet refused"),
                }
            }
            kani::cover!(!corrupt && len == 50 && cap == 50, "largest packet, exact fit");
            kani::cover!(!corrupt && value.queue_id.is_none() && len == 35, "smallest packet");
            kani::cover!(corrupt && at == 15, "last tag byte corrupted");
        }
    };
}

keyed_roundtrip!(verif_sc_stale_key_roundtrip, StaleKey, StaleKey, Kind::Stale, min_key_id);
keyed_roundtrip!(verif_sc_replay_detected_roundtrip, ReplayDetected, ReplayDetected, Kind::Replay, rejected_key_id);

#[cfg_attr(kani, kani::proof)]
#[cfg_attr(kani, kani::unwind(18))]
#[cfg_attr(kani, kani::stub(aws_lc_rs::constant_time::verify_slices_are_equal, stub_verify_slices_are_equal))]
fn verif_sc_unknown_path_secret_roundtrip() {
    let value = UnknownPathSecret {
        credential_id: any_id(),
        wire_version: WireVersion::ZERO,
        queue_id: any_queue_id(),
    };
    let tag: [u8; TAG_LEN] = kani::any();
    let hl = 18
        + match value.queue_id {
            Some(q) => ref_varint_len(q.as_u64()),
            None => 0,
        };
    let cap: usize = kani::any();
    kani::assume(cap >= hl + TAG_LEN && cap <= BUF);
    let mut buf = [0xa5u8; BUF];
    let len = value.encode(EncoderBuffer::new(&mut buf[..cap]), &tag);
    assert!(len == hl + TAG_LEN);
    assert!(len <= UnknownPathSecret::MAX_PACKET_SIZE);
    let i: usize = kani::any();
    kani::assume(i < BUF);
    if i < hl {
        assert!(buf[i] == ref_header_byte(Kind::Unknown, &value.credential_id, value.queue_id, None, i));
    } else if i < len {
        assert!(buf[i] == tag[i - hl]);
    } else {
        assert!(buf[i] == 0xa5);
    }

    let (pkt, rest) = match Packet::decode(DecoderBufferMut::new(&mut buf[..len])) {
        Ok(v) => v,
        Err(_) => panic!("own encoding rejected"),
    };
    assert!(rest.is_empty());
    let pkt = match pkt {
        Packet::UnknownPathSecret(p) => p,
        _ => panic!("decoded as the wrong packet type"),
    };
    assert!(*pkt.credential_id() == value.credential_id);
    // the receiver's own reset tag for that credential id decides
    let mine: [u8; TAG_LEN] = kani::any();
    match pkt.authenticate(&mine) {
        Some(v) => {
            assert!(mine == tag, "packet with a foreign reset tag was handed out");
            assert!(*v == value);
        }
        None => assert!(mine != tag, "authentic packet refused"),
    }
    kani::cover!(mine == tag && value.queue_id.is_some(), "accepted, with queue id");
    kani::cover!(mine != tag && mine[..15] == tag[..15], "reset tag differing in the last byte refused");
    kani::cover!(len == 42 && cap == 42, "largest packet, exact fit");
}

// ---------------------------------------------------------------- decoder totality + agreement
const IN: usize = 50; // longest valid packet: 1 + 16 + 1 + 8 + 8 + 16

#[cfg_attr(kani, kani::proof)]
#[cfg_attr(kani, kani::unwind(18))]
fn verif_sc_decode_total() {
    let mut bytes: [u8; IN] = kani::any();
    let copy = bytes;
    let len: usize = kani::any();
    kani::assume(len <= IN);
    let base = bytes.as_ptr();
    let expect: [u8; TAG_LEN] = kani::any();
    let reference = ref_parse(&copy, len);

    match Packet::decode(DecoderBufferMut::new(&mut bytes[..len])) {
        Err(_) => {
            assert!(reference.is_none(), "well-formed packet rejected");
            kani::cover!(len == 49, "long malformed input rejected");
        }
        Ok((pkt, rest)) => {
            let r = match reference {
                Some(r) => r,
                None => panic!("malformed packet accepted"),
            };
            assert!(rest.len() == len - r.header_len - TAG_LEN);
            // credential id: one arbitrary byte
            let j: usize = kani::any();
            kani::assume(j < 16);
            assert!(pkt.credential_id()[j] == copy[1 + j]);
            assert!(pkt.queue_id().map(|v| v.as_u64()) == r.queue_id);
            let opener = StubOpener::new(expect);
            let mut tag_ok = true;
            let mut t = 0;
            while t < TAG_LEN {
                tag_ok = tag_ok && copy[r.header_len + t] == expect[t];
                t += 1;
            }
            match pkt {
                Packet::UnknownPathSecret(p) => {
                    assert!(r.kind == Kind::Unknown);
                    // authenticated by the reset tag: exercised in the round-trip harness (FFI compare)
                    let _ = p;
                    kani::cover!(r.queue_id.is_some(), "unknown path secret with queue id");
                }
                Packet::StaleKey(p) => {
                    assert!(r.kind == Kind::Stale);
                    let out = p.authenticate(&opener);
                    assert!(opener.saw(base, r.header_len));
                    assert!(out.is_some() == tag_ok, "acted upon iff the tag verifies");
                    if let Some(v) = out {
                        assert!(v.min_key_id.as_u64() == r.key_id);
                        assert!(v.wire_version == WireVersion::ZERO);
                    }
                    kani::cover!(tag_ok && len == IN, "authentic 50-byte stale key packet");
                    kani::cover!(!tag_ok, "stale key packet with a bad tag");
                }
                Packet::ReplayDetected(p) => {
                    assert!(r.kind == Kind::Replay);
                    let out = p.authenticate(&opener);
                    assert!(opener.saw(base, r.header_len));
                    assert!(out.is_some() == tag_ok, "acted upon iff the tag verifies");
                    if let Some(v) = out {
                        assert!(v.rejected_key_id.as_u64() == r.key_id);
                    }
                    kani::cover!(tag_ok && rest.len() > 0, "authentic replay-detected packet with trailing bytes");
                }
            }
        }
    }
}

// ---- generated by tools/fixup.py: native replay entry ----
#[cfg(not(kani))]
#[test]
fn verif_replay() {
    kani::replay(&[
        ("verif_sc_unknown_path_secret_roundtrip", verif_sc_unknown_path_secret_roundtrip),
        ("verif_sc_decode_total", verif_sc_decode_total),
        ("verif_sc_stale_key_roundtrip", verif_sc_stale_key_roundtrip),
        ("verif_sc_replay_detected_roundtrip", verif_sc_replay_detected_roundtrip),
    ]);
}
