// C19-O1: a receiver accepts a key id at most once per path secret, and accepts every
// not-yet-seen id above, or less than 896 below, the highest id accepted so far.
//
// Real code: path::secret::receiver::State::{pre_authentication, post_authentication,
// minimum_unseen_key_id} on the real AtomicU64 + Mutex<BitArr!(for 896)>.
//
// The oracle is a set model over the raw storage words: key id `q` is recorded as seen in
// (max, words) iff max != SENTINEL, q <= max, max - q < 896 and bit (max - q) is set, where bit
// `i` lives in words[i / 64] at position i % 64 (bitvec Lsb0 / usize storage).
//
// bitvec's `shift_end` is a bit-at-a-time crawl (measured out of reach for CBMC). Two harnesses:
//  * verif_receiver_post_auth_real:   real bitvec fill/get_mut, restricted to the steps that do not
//    enter the crawl (id at or below the maximum; first id 0; id more than 896 above the maximum);
//    shift_end is replaced by `assert!(by == 0)` (the real function is the identity for 0)
//  * verif_receiver_post_auth_window: every step; `BitSlice::shift_end` replaced by a word-level
//    shift with the documented contract (by <= len asserted; by == len clears) - see `stub_shift_end`
//    (validated natively against bitvec 1.1.1 by `shift_stub_matches_bitvec` below).
use super::*;
#[cfg(not(kani))]
use crate::kani;
use crate::credentials::Id;
use bitvec::{order::BitOrder, slice::BitSlice, store::BitStore};

const MAXV: u64 = (1 << 62) - 1; // KeyId::MAX, reserved
const SENTINEL: u64 = u64::MAX; // "nothing accepted yet"
const WORDS: usize = WINDOW / 64;

fn bit(words: &[usize; WORDS], i: u64) -> bool {
    (words[(i / 64) as usize] >> (i % 64)) & 1 == 1
}

/// reference membership: was key id `q` recorded as accepted?
fn model_seen(max: u64, words: &[usize; WORDS], q: u64) -> bool {
    max != SENTINEL && q <= max && max - q < WINDOW as u64 && bit(words, max - q)
}

fn build(max: u64, words: [usize; WORDS]) -> State {
    let mut seen: Seen = Default::default();
    seen.data = words;
    State {
        max_seen_key_id: AtomicU64::new(max),
        seen: Mutex::new(seen),
    }
}

fn any_pre_state() -> (u64, [usize; WORDS]) {
    let max: u64 = kani::any();
    let words: [usize; WORDS] = kani::any();
    // representation invariant (each clause re-asserted on the post-state):
    //  - the maximum is the sentinel or an accepted (hence non-reserved) key id
    //  - nothing accepted yet => empty window
    kani::assume(max == SENTINEL || max < MAXV);
    if max == SENTINEL {
        let mut j = 0;
        while j < WORDS {
            kani::assume(words[j] == 0);
            j += 1;
        }
    }
    (max, words)
}

fn creds(key_id: u64) -> Credentials {
    let id: [u8; 16] = kani::any();
    Credentials {
        id: Id::from(id),
        key_id: KeyId::new(key_id).unwrap(),
    }
}

/// one post_authentication step checked against the set model
fn step_and_check(max: u64, words: [usize; WORDS], k: u64) {
    let state = build(max, words);
    let res = state.post_authentication(&creds(k));

    let new_max_v = state.max_seen_key_id.load(Ordering::Relaxed);
    let new_words = state.seen.lock().unwrap().data;

    let reserved = k == MAXV;
    let too_old = max != SENTINEL && k < max && max - k >= WINDOW as u64;
    let dup = model_seen(max, &words, k);

    kani::cover!(res.is_ok() && max != SENTINEL && k < max, "unseen id below the maximum accepted");
    kani::cover!(res.is_ok() && max != SENTINEL && k > max, "id above the maximum accepted");
    kani::cover!(res.is_ok() && max == SENTINEL, "first id ever accepted");
    kani::cover!(res == Err(Error::AlreadyExists) && k < max, "replayed id inside the window rejected");
    kani::cover!(res == Err(Error::AlreadyExists) && k == max, "replay of the maximum rejected");
    kani::cover!(too_old && !reserved, "id 896 or more below the maximum");
    kani::cover!(
        max != SENTINEL && k < max && max - k == WINDOW as u64 - 1 && res.is_ok(),
        "oldest id still inside the window accepted"
    );

    // verdict
    if reserved {
        assert!(res == Err(Error::Unknown), "reserved id must be rejected");
    } else if too_old {
        assert!(res == Err(Error::Unknown), "id outside the window must be rejected as unknown");
    } else if dup {
        assert!(res == Err(Error::AlreadyExists), "a recorded id was accepted twice");
    } else {
        assert!(res == Ok(()), "a not-yet-seen id above or < 896 below the maximum was refused");
    }

    // post-state
    let q: u64 = kani::any();
    kani::assume(q < MAXV);
    if res.is_err() {
        assert!(new_max_v == max, "a rejected id changed the maximum");
        let w: usize = kani::any();
        kani::assume(w < WORDS);
        assert!(new_words[w] == words[w], "a rejected id changed the window");
    } else {
        let expect_max = if max == SENTINEL || k > max { k } else { max };
        assert!(new_max_v == expect_max);
        assert!(new_max_v < MAXV);
        let in_window = q <= expect_max && expect_max - q < WINDOW as u64;
        let expect = in_window && (model_seen(max, &words, q) || q == k);
        assert!(
            model_seen(new_max_v, &new_words, q) == expect,
            "recorded set != (old set + accepted id) cut to the window"
        );
        assert!(model_seen(new_max_v, &new_words, k), "the accepted id is not recorded");
    }
    // StaleKey's advertised minimum is above everything accepted
    if new_max_v != SENTINEL {
        assert!(state.minimum_unseen_key_id().as_u64() == new_max_v + 1);
    }
    core::mem::forget(state);
}

/// `shift_end(0)` returns immediately in bitvec ("This has no effect when `by` is 0"); any other
/// amount would enter the bit crawl, which this harness excludes: asserted, not assumed.
#[allow(dead_code)]
fn stub_shift_end_zero_only<T: BitStore, O: BitOrder>(_this: &mut BitSlice<T, O>, by: usize) {
    assert!(by == 0, "window moved by 1..=896: outside this harness (see verif_receiver_post_auth_window)");
}

// REAL bitvec (fill / get_mut / BitRef), steps that do not run shift_end's bit crawl.
// (Measured: leaving the real shift_end in the program and relying on unwinding assertions to show
// that the crawl is not entered does not finish: > 10 min in symbolic execution at unwind 16.)
#[cfg_attr(kani, kani::proof)]
#[cfg_attr(kani, kani::unwind(16))]
#[cfg_attr(kani, kani::stub(bitvec::slice::BitSlice::shift_end, stub_shift_end_zero_only))]
fn verif_receiver_post_auth_real() {
    let (max, words) = any_pre_state();
    let k: u64 = kani::any();
    kani::assume(k <= MAXV);
    if max == SENTINEL {
        kani::assume(k == 0 || k > WINDOW as u64);
    } else {
        kani::assume(k <= max || k - max > WINDOW as u64);
    }
    step_and_check(max, words, k);
}

/// Word-level stand-in for `bitvec::slice::BitSlice::shift_end` on the receiver's window
/// (`BitArr!(for 896)` = 14 usize words, Lsb0): bit i moves to i + by, the low `by` bits are
/// cleared; `by == len` clears everything; `by > len` panics (asserted: the caller must not do it).
#[allow(dead_code)]
fn stub_shift_end<T: BitStore, O: BitOrder>(this: &mut BitSlice<T, O>, by: usize) {
    let len = this.len();
    assert!(len == WINDOW, "stub is specific to the 896-bit window");
    assert!(by <= len, "bitvec shift_end panics: shift must not exceed the length");
    let p = this.as_mut_bitptr().pointer() as *mut [usize; WORDS];
    let words: &mut [usize; WORDS] = unsafe { &mut *p };
    word_shift(words, by);
}

fn word_shift(words: &mut [usize; WORDS], by: usize) {
    let old = *words;
    let ws = by / 64;
    let bs = (by % 64) as u32;
    let mut i = 0;
    while i < WORDS {
        let mut w = 0usize;
        if i >= ws {
            w = old[i - ws] << bs;
            if bs > 0 && i > ws {
                w |= old[i - ws - 1] >> (64 - bs);
            }
        }
        words[i] = w;
        i += 1;
    }
}

// every step, window shift by the word-level stub
#[cfg_attr(kani, kani::proof)]
#[cfg_attr(kani, kani::unwind(16))]
#[cfg_attr(kani, kani::stub(bitvec::slice::BitSlice::shift_end, stub_shift_end))]
fn verif_receiver_post_auth_window() {
    let (max, words) = any_pre_state();
    let k: u64 = kani::any();
    kani::assume(k <= MAXV);
    step_and_check(max, words, k);
}

// pre_authentication: only the reserved id is refused before authentication, whatever the state;
// minimum_unseen_key_id never panics and is above the maximum.
#[cfg_attr(kani, kani::proof)]
#[cfg_attr(kani, kani::unwind(16))]
fn verif_receiver_pre_auth() {
    let max: u64 = kani::any();
    let words: [usize; WORDS] = kani::any();
    let state = build(max, words);
    let k: u64 = kani::any();
    kani::assume(k <= MAXV);
    let res = state.pre_authentication(&creds(k));
    if k == MAXV {
        assert!(res == Err(Error::Unknown));
    } else {
        assert!(res == Ok(()));
    }
    assert!(state.max_seen_key_id.load(Ordering::Relaxed) == max);
    let m = state.minimum_unseen_key_id().as_u64();
    if max == SENTINEL {
        assert!(m == 0);
    } else if max < MAXV {
        assert!(m == max + 1);
    } else {
        assert!(m == MAXV);
    }
    kani::cover!(k == MAXV, "reserved id");
    kani::cover!(max == MAXV - 1 && m == MAXV, "minimum saturates at the reserved id");
    kani::cover!(max > MAXV, "out-of-range maximum does not panic");
    core::mem::forget(state);
}

// fresh receiver, two ids: the second is accepted iff it differs from the first and is not
// 896 or more below it (real bitvec when the ids are equal / far apart, see above)
#[cfg_attr(kani, kani::proof)]
#[cfg_attr(kani, kani::unwind(16))]
#[cfg_attr(kani, kani::stub(bitvec::slice::BitSlice::shift_end, stub_shift_end))]
fn verif_receiver_fresh_two() {
    let state = State::new();
    let a: u64 = kani::any();
    let b: u64 = kani::any();
    kani::assume(a < MAXV && b < MAXV);
    assert!(state.minimum_unseen_key_id().as_u64() == 0);
    assert!(state.post_authentication(&creds(a)) == Ok(()));
    let r = state.post_authentication(&creds(b));
    if a == b {
        assert!(r == Err(Error::AlreadyExists));
    } else if b < a && a - b >= WINDOW as u64 {
        assert!(r == Err(Error::Unknown));
    } else {
        assert!(r == Ok(()));
    }
    // replay of the first id after the second
    let r2 = state.post_authentication(&creds(a));
    assert!(r2.is_err());
    kani::cover!(r.is_ok() && b < a, "reordered second id accepted");
    kani::cover!(r.is_ok() && b > a + WINDOW as u64, "second id far ahead");
    kani::cover!(r2 == Err(Error::Unknown), "first id fell out of the window: unknown");
    kani::cover!(r2 == Err(Error::AlreadyExists), "first id still in the window: definite replay");
    core::mem::forget(state);
}

// native validation of the stub against the real bitvec (not a Kani harness)
#[cfg(not(kani))]
#[test]
fn shift_stub_matches_bitvec() {
    let mut x: u64 = 0x9e37_79b9_7f4a_7c15;
    let mut rnd = || {
        x ^= x << 13;
        x ^= x >> 7;
        x ^= x << 17;
        x as usize
    };
    for by in 0..=WINDOW {
        for round in 0..8 {
            let mut words = [0usize; WORDS];
            for w in words.iter_mut() {
                *w = match round {
                    0 => usize::MAX,
                    1 => 1,
                    2 => 1 << 63,
                    _ => rnd(),
                };
            }
            let mut real: Seen = Default::default();
            real.data = words;
            real.shift_end(by);
            let mut mine = words;
            word_shift(&mut mine, by);
            assert_eq!(real.data, mine, "by = {by}");
            // and the layout assumption of `bit`
            for i in [0usize, 1, 63, 64, 65, 500, 895] {
                assert_eq!(real[i], bit(&real.data, i as u64));
            }
        }
    }
}

// ---- generated by tools/fixup.py: native replay entry ----
#[cfg(not(kani))]
#[test]
fn verif_replay() {
    kani::replay(&[
        ("verif_receiver_post_auth_real", verif_receiver_post_auth_real),
        ("verif_receiver_post_auth_window", verif_receiver_post_auth_window),
        ("verif_receiver_pre_auth", verif_receiver_pre_auth),
        ("verif_receiver_fresh_two", verif_receiver_fresh_two),
    ]);
}
