// C06-O2: AEAD nonce = IV XOR left-padded packet number (RFC 9001 section 5.3); injective in the
// packet number for a fixed IV, so no (key, nonce) pair is reused within a key's lifetime.
use super::*;
#[cfg(not(kani))]
use crate::kani;

#[cfg_attr(kani, kani::proof)]
#[cfg_attr(kani, kani::unwind(13))]
fn verif_iv_nonce() {
    let ivb: [u8; NONCE_LEN] = kani::any();
    let iv = Iv(ivb);
    let pn: u64 = kani::any();
    let n = iv.nonce(pn);
    // RFC 9001 5.3: left-pad the 62-bit packet number to the IV length, XOR with the IV
    let be = pn.to_be_bytes();
    let mut i = 0;
    while i < NONCE_LEN {
        let padded = if i < NONCE_LEN - 8 { 0 } else { be[i - (NONCE_LEN - 8)] };
        assert!(n[i] == ivb[i] ^ padded);
        i += 1;
    }
    let pn2: u64 = kani::any();
    let n2 = iv.nonce(pn2);
    if pn != pn2 {
        assert!(n != n2);
    }
    kani::cover!(pn != pn2 && pn >> 8 == pn2 >> 8, "packet numbers differing only in the last byte");
    core::mem::forget(iv);
}

// ---- native replay entry ----
#[cfg(not(kani))]
#[test]
fn verif_replay() {
    kani::replay(&[("verif_iv_nonce", verif_iv_nonce)]);
}
