#!/bin/bash
# run a property's check against a COPY of /repo (git worktree at HEAD) with a seeded change applied
#   seedrun.sh <seed-name> <PROP> [extra ./check args]       (scratch: /tmp/sr; does not touch /repo or /verif/evidence)
# (the registered checks are also required to work on /repo itself with the patch applied:
#    git -C /repo apply /verif/seeded/<name>/patch.diff; ./check <PROP>; git -C /repo checkout -- .   — same result)
set -u
name=$1; prop=$2; shift 2
cd /verif
wt=/tmp/sr/repo
mkdir -p /tmp/sr
if [ ! -d $wt ]; then git -C /repo worktree add -q --detach $wt HEAD || exit 3; cp /repo/Cargo.lock $wt/; fi
git -C $wt checkout -q --detach $(git -C /repo rev-parse HEAD) && git -C $wt checkout -q -- . || exit 3
git -C $wt apply /verif/seeded/$name/patch.diff || { echo "patch does not apply"; exit 3; }
VERIF_REPO=$wt VERIF_SCRATCH=/tmp/sr ./check $prop "$@" > seeded/$name/check_$prop.log 2>&1; rc=$?
git -C $wt checkout -q -- .
echo "seed=$name prop=$prop exit=$rc"; grep -a "^VIOLATION\|^INCONCLUSIVE\|^KNOWN-FINDING" seeded/$name/check_$prop.log | cut -c1-160
for f in $(grep -a -o "replay=[^ ]*" seeded/$name/check_$prop.log | cut -d= -f2); do cp $f seeded/$name/ 2>/dev/null; done
exit $rc
