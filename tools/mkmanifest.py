#!/usr/bin/env python3
"""regenerates /verif/MANIFEST.json from obligations.toml (claimed = properties with a [property.X] entry
and at least two quick obligations) and tools/not_applicable.toml"""
import json, tomllib, subprocess
cfg = tomllib.load(open('/verif/obligations.toml', 'rb'))
na = tomllib.load(open('/verif/tools/not_applicable.toml', 'rb'))
props = [json.loads(l) for l in open('/verif/properties.jsonl')]
claimed = []
for p in props:
    pid = p['id']
    quick = [o for o in cfg['obligation'] if pid in o['props'] and o.get('tier', 'quick') == 'quick']
    if pid in cfg.get('property', {}) and len(quick) >= 2 and pid not in na:
        claimed.append(pid)
hooks = subprocess.run(['git', '-C', '/repo', 'log', '--format=%H %s'], capture_output=True, text=True).stdout.splitlines()
hook_commits = [l.split()[0] for l in hooks if ' verif hooks' in l]
m = {
 "version": 1,
 "setup_cmd": "./check --setup",
 "hooks": {"guard": "aws_s2n_quic_verif",
   "enable": "RUSTFLAGS='--cfg aws_s2n_quic_verif' (set by /verif/check for `cargo kani` and for the native replay build). Harness modules are #[path]-included from /verif/harness into the files whose private items they need and compile only under cfg(all(aws_s2n_quic_verif, test)) (transport: ... any(test, all(kani, feature = \"testing\"))); s2n-quic-transport additionally gets an add-only cargo feature `testing` (used only by Kani builds).",
   "baseline_off_cmd": "cd /repo && cargo test --workspace --no-fail-fast --offline",
   "source_commits": hook_commits, "add_only": True},
 "engines": [{"name": "kani", "path": "/root/.cargo/bin/cargo-kani", "serves_properties": claimed,
   "kind_free_text": "Kani 0.68 -> CBMC 6.11 -> CaDiCaL: bounded model checking of the compiled Rust code of /repo with symbolic inputs and symbolic pre-states; counterexamples replayed natively"}],
 "checks": [], "not_applicable": [],
 "notes": "Every claim is bounded (bounds, stubs and assumptions per obligation in obligations.toml and in each evidence file). See DESIGN.md."
}
for p in props:
    pid = p['id']
    if pid in claimed:
        pc = cfg['property'][pid]
        m["checks"].append({
          "property_id": pid, "quick_cmd": "./check %s --tier quick" % pid, "thorough_cmd": "./check %s --tier thorough" % pid,
          "evidence_file": "/verif/evidence/%s.json" % pid, "replay_cmd_template": "./check --replay {path}", "engine": "kani",
          "level_claimed": {"category": "model_checking",
             "text": "Bounded model checking (Kani/CBMC/CaDiCaL) of the real functions, decided for all inputs within the stated bounds. " + pc['claim'] + " NOT covered: " + pc['outside'],
             "design_ref": "DESIGN.md section 5, " + pid},
          "level_note": "Trusted: Kani's MIR->GOTO translation, CBMC, CaDiCaL, rustc, the harness oracles in /verif/harness; stubs and assumptions are listed per obligation in the evidence file. Bounded claims only — nothing is claimed outside the bounds.",
          "technique": "SAT-based bounded model checking of the compiled Rust (Kani 0.68 / CBMC 6.11 / CaDiCaL): symbolic inputs and symbolic pre-states, inductive one-step harnesses, differential oracles; counterexamples replayed against the native build"})
    else:
        reason = na.get(pid, {}).get('reason', 'no obligation built yet')
        m["not_applicable"].append({"property_id": pid, "reason": reason})
json.dump(m, open('/verif/MANIFEST.json', 'w'), indent=1)
print("claimed:", claimed)
print("not applicable:", [x['property_id'] for x in m['not_applicable']])
