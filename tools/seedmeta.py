#!/usr/bin/env python3
"""builds seeded/<name>/meta.json from seeded/SEEDS.toml and the check logs in each seed directory"""
import tomllib, json, os, re, glob
seeds = tomllib.load(open('/verif/seeded/SEEDS.toml', 'rb'))
for name, s in seeds.items():
    d = '/verif/seeded/' + name
    if not os.path.isdir(d):
        print("missing dir", name); continue
    confirm = open(d + '/confirm.log').read() if os.path.exists(d + '/confirm.log') else ''
    confirmed = 'demo-with-change FAILED lines=1, ok lines=2' in confirm
    caught, ran, verdicts = [], [], {}
    for lg in sorted(glob.glob(d + '/check_*.log')):
        prop = os.path.basename(lg)[6:-4]
        t = open(lg, errors='replace').read()
        ran.append(prop)
        m = re.search(r'violations=(\d+) inconclusive=(\d+)', t)
        for v in re.finditer(r'^\s+obligation (\S+) \(', t, flags=re.M):
            if v.group(1) not in caught: caught.append(v.group(1))
        verdicts[prop] = ('VIOLATION' if 'VIOLATION property=' in t else ('inconclusive' if m and int(m.group(2)) > 0 else 'no alarm'))
    result = "caught" if caught else ("not detected" if ran else "not run yet")
    meta = {"name": name, "property": s['property'], "changed": s['file'], "needs": s['needs'],
            "confirmed_demo_fails_with_and_passes_without_and_suite_passes": confirmed,
            "checks_run": ran, "verdicts": verdicts, "caught_by": caught,
            "result": result + ("; " + s['note'] if s.get('note') else ""),
            "what_was_run": "tools/seedcheck.sh (confirm.log) then tools/seedrun.sh <seed> <PROP> (check_<PROP>.log): ./check <PROP> against a worktree of /repo with patch.diff applied"}
    json.dump(meta, open(d + '/meta.json', 'w'), indent=1)
    print("%-55s %-12s %s" % (name, result, ",".join(caught)))
