#!/usr/bin/env python3
"""append the add-only harness hook to a /repo source file (idempotent).
usage: hook.py <path under /repo> <harness path under /verif/harness> [extra cfg predicate]"""
import sys
repo_file, harness = sys.argv[1], sys.argv[2]
extra = sys.argv[3] if len(sys.argv) > 3 else "test"
import os
p = os.path.join(os.environ.get("VERIF_REPO", "/repo"), repo_file)
s = open(p).read()
line = '#[path = "/verif/harness/%s"]' % harness
if line in s:
    print("already hooked"); sys.exit(0)
if not s.endswith("\n"): s += "\n"
s += '\n#[cfg(all(aws_s2n_quic_verif, %s))]\n%s\nmod verif;\n' % (extra, line)
open(p, "w").write(s)
print("hooked", p)
