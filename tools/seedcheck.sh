#!/bin/bash
# confirm a seeded change in a scratch worktree:
#   seedcheck.sh <seed-name> <dir with patch.diff + demo.patch|demo.rs> <cargo package> <demo test filter> [suite filter|""] [file to append demo.rs to]
# 1. demo with the change -> must FAIL   2. demo without the change -> must PASS
# 3. the package's existing tests with the change (no demo) -> must PASS
# writes /verif/seeded/<seed-name>/{patch.diff,demo.patch,confirm.log}
set -u
name=$1; src=$2; pkg=$3; filter=$4; suite=${5:-}; append_to=${6:-}
wt=/tmp/sc/$name; tgt=/tmp/sc/target
rm -rf $wt; mkdir -p /tmp/sc /verif/seeded/$name
git -C /repo worktree add -q --detach $wt HEAD || exit 3
cp /repo/Cargo.lock $wt/
cp $src/patch.diff /verif/seeded/$name/patch.diff
[ -f $src/demo.patch ] && cp $src/demo.patch /verif/seeded/$name/demo.patch
[ -f $src/demo.rs ] && cp $src/demo.rs /verif/seeded/$name/demo.rs
[ -f $src/notes.md ] && cp $src/notes.md /verif/seeded/$name/notes.md
log=/verif/seeded/$name/confirm.log; : > $log
run() { (cd $wt && CARGO_NET_OFFLINE=true cargo test --offline -p "$pkg" --lib --target-dir $tgt "$@" 2>&1 | tail -15); }
git -C $wt apply $src/patch.diff || { echo "patch does not apply" | tee -a $log; exit 3; }
if [ -n "$append_to" ]; then cat $src/demo.rs >> $wt/$append_to; cp $wt/$append_to /tmp/sc/$name.demo_file; else git -C $wt apply $src/demo.patch || { echo "demo does not apply" | tee -a $log; exit 3; }; fi
echo "== demo WITH change (expect failure)" >> $log; run "$filter" >> $log
with=$(grep -c "test result: FAILED" $log)
git -C $wt apply -R $src/patch.diff || { echo "cannot revert patch" | tee -a $log; }
echo "== demo WITHOUT change (expect pass)" >> $log; run "$filter" >> $log
git -C $wt checkout -q -- . ; git -C $wt apply $src/patch.diff
echo "== existing tests WITH change, no demo (expect pass)" >> $log; run $suite >> $log
ok=$(grep -c "test result: ok" $log)
echo "summary: demo-with-change FAILED lines=$with, ok lines=$ok" | tee -a $log
git -C /repo worktree remove --force $wt
