#!/usr/bin/env python3
"""regenerates the generated block of DESIGN.md (between the GENERATED markers) from obligations.toml,
known_findings.toml and seeded/*/meta.json"""
import tomllib, json, glob, os, re
cfg = tomllib.load(open('/verif/obligations.toml','rb'))
kf = tomllib.load(open('/verif/known_findings.toml','rb'))
out = []
out.append("### A.3 Obligations as built (generated from obligations.toml)\n")
out.append("| obligation | properties | crate | tier | measured s | functions encoded | bound |")
out.append("|---|---|---|---|---|---|---|")
for o in cfg['obligation']:
    fn = "; ".join(o.get('functions', []))
    out.append("| %s%s | %s | %s | %s | %s | %s | %s |" % (o['id'], " (finding witness)" if o.get('expect') == 'finding_witness' else "", ",".join(o['props']), o['crate'], o.get('tier','quick'), o.get('measured_s','?'), fn.replace('|','/'), o.get('bound','').replace('|','/')))
out.append("")
out.append("### A.4 Per property: what is claimed, what is outside (generated)\n")
for pid, p in sorted(cfg.get('property', {}).items()):
    n_q = len([o for o in cfg['obligation'] if pid in o['props'] and o.get('tier','quick')=='quick'])
    n_t = len([o for o in cfg['obligation'] if pid in o['props']])
    out.append("* **%s** (%d quick / %d total obligations). Claimed: %s *Outside:* %s" % (pid, n_q, n_t, p['claim'], p['outside']))
out.append("")
out.append("### A.5 Findings (generated from known_findings.toml)\n")
for f in kf.get('fixed', []):
    out.append("* **fixed** %s — `%s`: %s" % (f['property'], f['commit'], f['what']))
for f in kf.get('finding', []):
    out.append("* **known finding** %s (witness obligation %s): %s" % (f['property'], f['obligation'], f['what']))
out.append("")
metas = sorted(glob.glob('/verif/seeded/*/meta.json'))
out.append("### A.6 Seeded changes and which checks catch them (generated from seeded/*/meta.json)\n")
if metas:
    out.append("| seeded change | breaks | needs to manifest | caught by | result |")
    out.append("|---|---|---|---|---|")
    for m in metas:
        d = json.load(open(m))
        out.append("| %s | %s | %s | %s | %s |" % (os.path.basename(os.path.dirname(m)), d.get('property',''), d.get('needs','').replace('|','/'), ", ".join(d.get('caught_by', [])) or "—", d.get('result','').replace('|','/')))
else:
    out.append("(none recorded yet)")
out.append("")
out.append("")
out.append("### A.7 Last run per property (generated from evidence/*.json)\n")
out.append("| property | tier of the last run | obligations | discharged | inconclusive | known findings reported | checks | SAT queries | solver s | wall s |")
out.append("|---|---|---|---|---|---|---|---|---|---|")
for f in sorted(glob.glob('/verif/evidence/*.json')):
    e = json.load(open(f)); c = e.get('coverage', {})
    out.append("| %s | %s | %s | %s | %s | %s | %s | %s | %s | %s |" % (e.get('property_id'), e.get('tier'), c.get('obligations'), c.get('discharged'), c.get('inconclusive'), c.get('known_findings_reported'), c.get('checks_total'), c.get('queries_total'), c.get('solver_s_total'), e.get('wall_s')))
out.append("")
block = "\n".join(out)
p = '/verif/DESIGN.md'
s = open(p).read()
a, b = "<!-- GENERATED:BEGIN -->", "<!-- GENERATED:END -->"
i, j = s.index(a) + len(a), s.index(b)
s = s[:i] + "\n" + block + "\n" + s[j:]
open(p, 'w').write(s)
print("tables regenerated:", len(cfg['obligation']), "obligations,", len(metas), "seeded changes")
