#!/bin/sh
# stop all running verification processes (exact process-name matches only; never `pkill -f`)
pkill -x cbmc; pkill -x kani-driver; pkill -x cargo-kani; pkill -x kani-compiler
for p in $(pgrep -x python3); do if tr '\0' ' ' < /proc/$p/cmdline | grep -q "/verif/check\|\./check"; then kill $p; fi; done
true
