// Demonstration of the defect repaired by the /repo commit
//   "fix: do not announce a RESET_STREAM final size beyond the peer's MAX_STREAM_DATA".
// Append to quic/s2n-quic-transport/src/stream/send_stream/tests.rs and run
//   cargo test -p s2n-quic-transport --lib -- verif_demo_reset_final_size
// Before the fix: "RESET_STREAM final size 3000 exceeds the peer's MAX_STREAM_DATA of 1000".
// verif demonstration (C03): RESET_STREAM final size must obey the peer's MAX_STREAM_DATA
#[test]
fn verif_demo_reset_final_size_within_max_stream_data() {
    let test_env_config = TestEnvironmentConfig {
        max_send_buffer_size: 4000,
        // the peer allows 1000 bytes on this stream, 100 KiB on the connection
        initial_send_window: 1000,
        initial_connection_send_window_size: 100 * 1024,
        stream_id: StreamId::initial(endpoint::Type::Client, StreamType::Unidirectional),
        local_endpoint_type: endpoint::Type::Client,
        ..Default::default()
    };
    let mut test_env = setup_stream_test_env_with_config(test_env_config);
    let error_code = ApplicationErrorCode::new(0x3333_4444).unwrap();

    execute_instructions(
        &mut test_env,
        &[
            // the application queues more than the stream window permits
            Instruction::EnqueueData(VarInt::from_u32(0), 3000, true),
            // only the permitted 1000 bytes go out
            Instruction::CheckDataTx(VarInt::from_u32(0), 1000, false, false, pn(0)),
            // then the application resets the stream
            Instruction::Reset(error_code, true),
        ],
    );
    // drop what the data packet carried besides the STREAM frame (a STREAM_DATA_BLOCKED)
    while test_env.sent_frames.pop_front().is_some() {}
    let mut written = test_env.transmit().expect("reset frame");
    let final_size = match written.as_frame() {
        s2n_quic_core::frame::Frame::ResetStream(r) => r.final_size,
        other => panic!("unexpected frame {:?}", other),
    };
    assert!(
        final_size <= VarInt::from_u32(1000),
        "RESET_STREAM final size {} exceeds the peer's MAX_STREAM_DATA of 1000",
        final_size
    );
}
