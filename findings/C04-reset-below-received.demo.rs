// Demonstration of the known finding C04-O4w (not repaired, see known_findings.toml).
// Append to quic/s2n-quic-transport/src/stream/receive_stream/tests.rs and run
//   cargo test -p s2n-quic-transport --lib -- verif_demo_reset_final_size_below
// On the pinned tree on_reset returns Ok(()) for all three final sizes.

// verif demonstration (C04): a RESET_STREAM whose final size lies below data that was already
// received is a final-size violation (RFC 9000 section 4.5)
#[test]
fn verif_demo_reset_final_size_below_received_data() {
    for final_size in &[0u64, 400, 799] {
        let mut test_env = setup_receive_only_test_env();

        // 800 bytes arrive, no FIN
        test_env.feed_data(VarInt::from_u32(0), 800);

        let reset_frame = ResetStream {
            stream_id: test_env.stream.stream_id.into(),
            application_error_code: VarInt::from_u8(0),
            final_size: VarInt::new(*final_size).unwrap(),
        };

        let mut events = StreamEvents::new();
        assert_is_transport_error(
            test_env.stream.on_reset(&reset_frame, &mut events),
            TransportError::FINAL_SIZE_ERROR,
        );
        events.wake_all();
    }
}
